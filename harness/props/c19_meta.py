"""C19 stream G: the MetaInfo of the answers.  One fetch over the real v1 ``ndn.app.NDNApp`` (as stream F: producer face on the
virtual-time loop, every Data packet encoded by the harness itself and correctly signed unless said otherwise, a shipped /
the default / a strict validator in force), where the MetaInfo that accompanies the final-block marker VARIES per packet:

 * FreshnessPeriod absent / 0 / 1 / small / large / 2^64-1, in every legal width of the NonNegativeInteger (0 in 1, 2, 4, 8 octets);
 * ContentType absent / BLOB written out / LINK / KEY / NACK (3) / the other assigned kinds / unassigned, application-range
   and very large values, in several widths;
 * no MetaInfo element at all (when there is no marker to carry), an empty one, one with an unassigned non-critical element;
 * FinalBlockId on no / the last / every / only an early / a wrong earlier segment (the marker styles of c19.mk_scenario);

crossed with the fetcher's ``must_be_fresh`` True / False, ``retry_times``, the losses before the answer and with which
segment answers the discovery Interest.

The property does not mention any of ContentType / FreshnessPeriod: MustBeFresh restricts what a cache may answer with, the
ContentType says how an application reads the content.  A Data that reaches the application inside the lifetime of a
pending Interest it matches was DELIVERED, whatever its MetaInfo says - so the oracle is the one of streams C / F,
unchanged: the scenario (fates per Interest: lost ... then delivered / refused by the validator) goes through the extracted
``Spec.expected`` (every delivered segment yielded once, in order, up to the self-designating one; InterestTimeout exactly
when some key had its first max(1, retry_times) Interests all lost), the Python headline, the retry discipline and the
model trace.  No change to Model / Spec: ``RData name content fbid?`` abstracts from the rest of the MetaInfo on purpose."""
from harness.props import c19 as H
from harness.props import c19_sig as S

SITE = 'segment_fetcher+NDNApp(MetaInfo shapes)'

# [value, octets]; None = element absent
FP_FORMS = [None, [0, 1], [0, 2], [0, 4], [0, 8], [1, 1], [1, 8], [2, 1], [255, 1], [256, 2], [1000, 2], [4000, 2], [65536, 4],
            [3600000, 4], [1 << 32, 8], [(1 << 64) - 1, 8]]
FP_QUICK = [None, [0, 1], [0, 2], [0, 8], [1, 1], [1, 8], [1000, 2], [4000, 2], [3600000, 4], [(1 << 64) - 1, 8]]
# BLOB, LINK, KEY, NACK, Manifest, PrefixAnn, KiteAck, unassigned, application range, large
CT_FORMS = [None, [0, 1], [1, 1], [2, 1], [3, 1], [4, 1], [5, 1], [6, 1], [9, 1], [255, 1], [0, 2], [3, 8], [1024, 2], [9999, 2],
            [65536, 4], [1 << 32, 8], [(1 << 64) - 1, 8]]
CT_QUICK = [None, [0, 1], [1, 1], [2, 1], [3, 1], [4, 1], [5, 1], [9, 1], [0, 2], [3, 8], [9999, 2], [(1 << 64) - 1, 8]]
PLAIN = ['m', None, None, None]
USUAL = ['m', [0, 1], [1000, 2], None]

# the validators in force (all of them accept a correctly signed DigestSha256 packet)
MODES = ['default(no validator argument)', 'sha256_digest_checker', 'own strict validator', 'default(validator=None)',
         'union_checker(accept-all, digest)']

# (number of segments, position of the shaped packet): first / middle / last of 3, the only segment, an unsegmented object
POSITIONS = ((3, 0), (3, 1), (3, 2), (1, 0), (0, None))


def one(ctx, s, styles, losses, retry, mbf, stratum, mode=None, shapes=None):
    rng = ctx.rng
    N = s['nseg']
    if shapes is None:
        shapes = {i: 'good' for i in range(N)} if s['disc'][0] != 'whole' else {None: 'good'}
    S.one_case(ctx, s, shapes, losses, mode or rng.choice(MODES), retry, rng.choice([100, 4000]), mbf, stratum,
               style=styles, site=SITE)
    for k, st in styles.items():
        fp, ct = st[2], st[1]
        ctx.stat('G.freshness:' + ('absent' if fp is None else '0' if fp[0] == 0 else '1' if fp[0] == 1 else 'larger')
                 + (':must_be_fresh' if mbf else ':may_be_stale'))
        ctx.stat('G.content-type:' + ('absent' if ct is None else str(ct[0]) if ct[0] <= 6 else 'other'))


def shaped(ctx, N, pos, disc_k, style, other, retry, lost, mbf, stratum, marker_style=None):
    """ONE packet (segment [pos] of N, or the unsegmented object) carries [style], the others [other]."""
    rng = ctx.rng
    s = H.mk_scenario(rng, N, disc_k, marker_style or rng.choice(['exact', 'all']), {},
                      prefix_mode=rng.choice([0, 0, 1]) if N else 0, whole_rel=rng.choice(H.WHOLE_RELS))
    if pos is None:
        styles = {None: style}
        losses = {None: lost}
    else:
        styles = {i: other for i in range(N)}
        styles[pos] = style
        losses = {rng.choice([None, pos]): lost}
    one(ctx, s, styles, losses, retry, mbf, stratum)


def stream_g(ctx):
    rng = ctx.rng
    fps = FP_FORMS if ctx.thorough else FP_QUICK
    cts = CT_FORMS if ctx.thorough else CT_QUICK
    # 1. FreshnessPeriod table: form of ONE packet x its position x discovery answered by that very packet / another one x
    #    must_be_fresh; the ContentType of the packet and the MetaInfo of the other packets drawn; losses 0 / retry-1
    for fp in fps:
        for N, pos in POSITIONS:
            discs = [None] if pos is None else sorted({pos, (pos + 1) % N})
            for disc_k in discs:
                for mbf in (True, False):
                    retry = rng.choice([1, 3])
                    shaped(ctx, N, pos, disc_k, ['m', rng.choice([None, [0, 1], rng.choice(cts)]), fp, None],
                           rng.choice([PLAIN, USUAL]), retry, rng.choice([0, retry - 1]), mbf, 'G.freshness-table')
    # 2. ContentType table: kind of ONE packet x position x discovery x must_be_fresh drawn; FreshnessPeriod drawn
    for ct in cts:
        for N, pos in POSITIONS:
            discs = [None] if pos is None else sorted({pos, (pos + 1) % N})
            for disc_k in discs:
                retry = rng.choice([1, 3])
                shaped(ctx, N, pos, disc_k, ['m', ct, rng.choice([None, [0, 1], [1000, 2], rng.choice(fps)]), None],
                       rng.choice([PLAIN, USUAL]), retry, rng.choice([0, retry - 1]), rng.choice([True, False]),
                       'G.content-type-table')
    # 3. FinalBlockId placement x ONE MetaInfo on every segment: marker style (none / last / every / early self-designation /
    #    naming other segments / non-canonical / only on segment 0) x FreshnessPeriod {absent, 0, 1, large} x ContentType
    #    {absent, LINK, KEY, NACK} x must_be_fresh; N = 3 (thorough: also 2 and 5); losses around the limit on one key
    for N in ((3,) if not ctx.thorough else (2, 3, 5)):
        for ms in H.STYLES:
            for fp in (None, [0, 1], [1, 1], [3600000, 4]):
                for ct in (None, [1, 1], [2, 1], [3, 1]):
                    for mbf in (True, False):
                        retry = rng.choice([1, 2, 3])
                        att = max(1, retry)
                        s = H.mk_scenario(rng, N, rng.randrange(N), ms, {}, prefix_mode=rng.choice([0, 1]))
                        keys = [None] + list(range(N))
                        losses = {rng.choice(keys): rng.choice([0, att - 1, att - 1, att])}
                        one(ctx, s, {i: ['m', ct, fp, None] for i in range(N)}, losses, retry, mbf, 'G.final-block-table')
    # 4. the MetaInfo element itself: absent (nothing to carry) / empty / with an unassigned non-critical element, on the
    #    unsegmented object, on one segment, on every segment without marker
    for extra in ('no-metainfo', None, 'unknown-element'):
        for fp in (None, [0, 1], [1000, 2]):
            for mbf in (True, False):
                st = ['m', None, fp, extra]
                retry = rng.choice([1, 3])
                shaped(ctx, 0, None, None, st, PLAIN, retry, rng.choice([0, retry - 1]), mbf, 'G.metainfo-element')
                shaped(ctx, 3, rng.randrange(2), rng.randrange(3), st, USUAL, retry, 0, mbf, 'G.metainfo-element', 'exact')
                s = H.mk_scenario(rng, 2, rng.randrange(2), 'absent', {}, prefix_mode=0)
                one(ctx, s, {0: st, 1: st}, {}, retry, mbf, 'G.metainfo-element')
    # 5. sampled: every packet draws its own MetaInfo; all marker styles; losses around the limit; now and then a segment
    #    whose signature does not verify (the validation clause under unusual MetaInfo)
    for _ in range(ctx.n(300, 8000)):
        N = rng.choice([0, 1, 2, 3, 4, 6])
        disc_k = rng.choice(list(range(N))) if N else None
        retry = rng.choice([0, 1, 2, 3])
        att = max(1, retry)
        s = H.mk_scenario(rng, N, disc_k, rng.choice(H.STYLES), {}, prefix_mode=rng.choice([0, 1]) if N else 0)
        pz = rng.choice([0.0, 0.2, 0.6])

        def draw():
            fp = [0, rng.choice([1, 2, 4, 8])] if rng.random() < pz else rng.choice(FP_FORMS)
            return ['m', rng.choice(CT_FORMS), fp, rng.choice([None, None, None, 'unknown-element', 'no-metainfo'])]
        keys = list(range(N)) if N else [None]
        styles = {k: draw() for k in keys}
        mode = rng.choice(MODES)
        shapes = {k: 'good' for k in keys}
        if rng.random() < 0.1:
            shapes[rng.choice(keys)] = rng.choice(['flip-first', 'no-value', 'tampered-content'])
        losses = {k: rng.choice([1, att - 1, att, att + 1]) for k in [None] + list(range(N)) if rng.random() < 0.2}
        one(ctx, s, styles, losses, retry, rng.choice([True, True, False]), 'G.sampled', mode=mode, shapes=shapes)
