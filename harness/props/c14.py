"""C14 — the schema validator accepts exactly packets with a valid chain to the anchor.

Implementation under test: ndn.app_support.light_versec.lvs_validator, ndn.security.validator.cascade_validator
(CascadeChecker, MemoryKeyStorage), union_checker — driven through the REAL ndn.app.NDNApp.express_interest
over a fake face that serves a generated certificate hierarchy (Data / Nack / silence / NetworkError).

Per generated history (constructors + validations by several instances):
 * correspondence: the extracted model (Model/Validator.v `run`) is given the same world as tables
   (packets, fetch results, verification results recorded from the real verify_* functions, schema answers
   recorded from the real light_versec.Checker) and must produce the same observations: constructor ok/error
   class, verdict / exception class / no-verdict, and the exact list of certificate Interests sent;
 * direct oracle: the extracted specification (`chainb`, `anchor_matchesb`, `self_signedb` of Spec/ChainSpec.v)
   is evaluated on the same world and compared with what the implementation did.
"""
import asyncio
import itertools
import random
from datetime import datetime, timedelta, timezone

from harness.lib import vtloop
from harness.lib.model import is_err, exc_code

RULE = ('certificate hierarchies of chain length 1..4 built with the real security_v2.new_cert over a pool of EC P-256 / '
        'RSA-1024 / Ed25519 keys and two real compiled LVS schemas (+ one with overlapping patterns that admits '
        'certificate loops, + bare CascadeChecker); every deviation (schema-denied issuer, skipped level, forged '
        'signature, tampered content, substituted key same/other type/junk/empty, wrong signer, missing certificate: '
        'silence/Nack/NetworkError, unsigned: no SignatureInfo/digest/KeyDigest locator/empty-name locator, wrong or '
        'unknown or HMAC signature type, self/2-cycle certificate loop) injected at every link; anchors: good, wrong name '
        'shape, not self-signed, forged, HMAC, unsigned, no content, undecodable, schema with a missing user function; '
        'roots-of-trust family: 14 schemas generated from a description (0..3 root rules whose patterns are '
        'disjoint / overlapping through a wildcard / identical / of different depth / constrained to overlapping '
        'literal sets, optionally an intermediate certificate rule) x 8 anchor key names, each a properly self-signed '
        '(or signed-by-other) certificate that matches all roots, some but not all, only non-root rules, or nothing; '
        'then data of every root zone validated; the compiled schema\'s roots and matches are cross-checked against '
        'the description; '
        'histories: up to 3 instances (different anchors / schemas / explicit or default storage) x up to 3 packets in '
        'sampled (quick) or all (thorough) orders; one instance validating packets of ONE key whose KeyLocators name different '
        'certificates of it (other version / issuer id; the second one valid, missing, Nack, forged or wrongly signed); '
        'validations that OVERLAP IN TIME: 2-4 validations in flight on one instance (and on 2-3 instances sharing the NDNApp: '
        'same configuration / other anchor / other or no schema) whose chains share certificates the instance has not cached '
        '(same signer x2 / x3, the same packet twice, sibling signers meeting at the parent, signer and parent, the '
        'certificate itself validated as a packet, next to forged / wrong-key / schema-denied packets and packets whose '
        'certificate is silent / Nack / NetworkError; one deviation of the single-deviation table above two packets of '
        'one signer; certificate loops next to each other), chain length 1..3, the face holds every answer back and the '
        'schedule is an explicit list of events start(instance, packet) / deliver(certificate name: one Data or Nack '
        'answers every pending Interest of that name) / expire(the Interests nobody answers time out), the loop run to '
        'quiescence between events: strictly sequential, the choice tree in depth-first order from "everything started '
        'before anything arrives" (thorough: the whole tree up to 150 schedules per scenario, exhausted for most) and random '
        'schedules; per schedule the extracted concurrent model (Model/ValidatorConc.v) must give the same verdict / exception '
        'class / Interests per validation, the same outstanding Interests after every event and the same key storage, '
        'and the oracle demands accept <-> chain for every finished validation, a verdict for every finite chain and ONE '
        'verdict per (configuration, packet) over all schedules; '
        'the CALLER\'S MEMORY: every wire handed to the library -- trust anchor, packet to validate, certificate Data delivered '
        'by the face -- given as bytes / bytearray / memoryview of bytes / memoryview of a bytearray / a window at an offset of a '
        'larger bytearray, and the caller goes on using its buffers: histories over anchor buffers and packet buffers with the '
        'operations load(buffer, wire: in place when it fits) / overwrite(buffer: zeros, every bit flipped, shifted by one byte) / '
        'build a validator from a buffer / validate the packet in a buffer, in which the anchor buffer is rewritten (zeros / '
        'flipped / shifted / the OTHER anchor: same name shape and key type, other key) after the construction, between two '
        'validations, to build a SECOND validator from the same buffer (then every instance is asked about packets of both '
        'anchors), loaded back, two buffers swapped, the packet buffer reused for the next packet and wiped, plus random walks '
        'over these operations (up to 3 instances, lvs / strict schema / bare, default or explicit own storages) that end with '
        'every buffer wiped and every instance asked about everything; in the overlapping family every other random schedule '
        'hands the anchors over in mutable buffers (optionally ONE buffer for all instances) that are overwritten before the '
        'first validation starts; the model and the oracle are given the history of the CALLS with the wire each buffer held '
        'at the call (theorem C14_memory_history_is_call_history; the history as written is also run on the extracted model '
        'of the caller\'s memory, Model/ValidatorMem.v): the verdicts may depend on nothing else; '
        'KeyLocators that are FULL NAMES <certificate name>/sha256digest=<d> (ImplicitSha256Digest component), at the packet '
        'and at every certificate of the chain including the element that names the anchor, chain length 0..3: the RIGHT digest '
        'of the signer\'s certificate as it is retrievable (for the anchor: of the anchor wire, the anchor retrievable from '
        'the network or only configured) or a digest NOTHING retrievable under that name has -- one bit flipped (last / '
        'first byte), all zeros, 31 bytes, 33 bytes, empty, the digest of another retrievable certificate, the digest of a '
        'superseded copy of the signer\'s certificate (same name and issuer, other key, not retrievable); every signature '
        'genuine and every certificate retrievable under its plain name, so only the locator decides; as ONE deviation at '
        'every link (cold and warm, also above two overlapping validations) and as vectors of forms over all links (all '
        'right / right-plain mixtures / one wrong digest somewhere / all wrong) followed by packets of the leaf\'s signer '
        'with plain, right and wrong full-name locators and the certificates themselves, validated twice in random orders '
        '(a key cached under the plain name or under one full name must not answer for another full name); the harness\' '
        'network answers an Interest for a full name only with the Data retrievable under the name whose SHA-256 (hashlib, '
        'over the wire) is that digest, and the world given to model and specification lists a full name as retrievable '
        'under exactly that condition: "names the next as its key" and "can be retrieved" are read on full names, a locator '
        'that pins a digest nothing retrievable has is not a link of a chain.  non-trivial = at least one validation that needs a certificate '
        'fetch or a constructor decision; distinct by (scenario tag, key types, order / schedule)')
ASSUMPTIONS = [
    'signature verification and key import are oracles: the model receives the results of the real '
    'known_key_validator.verify_* / Cryptodome import_key for every (key, packet) pair it can ask about',
    'the schema is an oracle: check/match/root_of_trust/validate_user_fns answers are recorded from the real Checker (C11-C13 model it)',
    'NDNApp.express_interest delivers a Data only for the exact requested name -- for a name that ends in an ImplicitSha256Digest '
    'component: only a Data of the name before it whose SHA-256 is that digest (C03/C05) -- ; names are compared component-wise '
    '(MemoryKeyStorage keys on Name.to_bytes, injective on well-formed names: C09_wire_roundtrip)',
    'the retrievable-certificate world is fixed during a history',
    'caller memory: a buffer is rewritten only after the call it was handed to has returned (constructor) / answered (validation), '
    'never while a validation that was given views into it is in flight; the wires the face delivered are given in every form and '
    'are overwritten once the top-level validation that fetched them has answered (a face receiving into a reusable buffer; '
    'RECEIVE_BUFFER_REUSED, judged since the library fix a338b22: MemoryKeyStorage used to keep a view of the delivered wire)',
    'overlapping validations: answers reach the application only through the harness events deliver / expire, the loop is run to '
    'quiescence between two events (virtual clock), so the event list is the linearisation; NDNApp wakes the validations that wait '
    'for one name in the order in which their Interests were expressed (model: CDeliver; cross-checked by comparing the outstanding '
    'Interests after every event); an Interest is left to time out only if the world has no answer for its name; a NetworkError '
    'of face.send does not suspend the validation',
]

FUEL = 12          # certificate fetches allowed inside ONE validation before the run is cut off ("no verdict")
WATCHDOG = 600.0   # virtual seconds after which a validation that neither answers nor fetches is given up ("hang")

LVS_MAIN = r'''
#KEY: "KEY"/_/_/_
#site: "lvs"
#root: #site/#KEY
#admin: #site/"admin"/admin/#KEY <= #root
#author: #site/"author"/author/"KEY"/_/admin/_ <= #admin
#editor: #site/"editor"/editor/"KEY"/_/author/_ <= #author
#article: #site/"article"/author/post <= #author
#note: #site/"note"/editor/post <= #editor
#memo: #site/"memo"/admin/post <= #admin
#notice: #site/"notice"/post <= #root
'''
# same name space, stricter: authors are not allowed to sign articles any more, admins are
LVS_STRICT = r'''
#KEY: "KEY"/_/_/_
#site: "lvs"
#root: #site/#KEY
#admin: #site/"admin"/admin/#KEY <= #root
#author: #site/"author"/author/"KEY"/_/admin/_ <= #admin
#article: #site/"article"/author/post <= #admin
#memo: #site/"memo"/admin/post <= #admin
#notice: #site/"notice"/post <= #root
'''
# overlapping patterns: the *node* signing graph is acyclic (the compiler accepts it) but one name can match
# both sides of a signing rule, so certificates may certify each other / themselves
LVS_LOOPY = r'''
#root: "lvs"/"KEY"/_/_/_
#a: "lvs"/u/"KEY"/_/_/_ <= #b | #root
#b: _/"peer"/"KEY"/_/_/_ <= #a2 | #root
#a2: "lvs"/"peer"/"KEY"/_/_/_ <= #root
#doc: "lvs"/"doc"/_ <= #a
'''
# needs a user function that is not supplied
LVS_NOFN = r'''
#root: "lvs"/"KEY"/_/_/_
#doc: "lvs"/"doc"/x & {x: $no_such_fn()} <= #root
'''

# ---- schemas with SEVERAL roots of trust --------------------------------------------------------------
# A root rule is  "lvs"/<items>/"KEY"/_/_/_  where an item is a literal, a wildcard ('_' or a named pattern) or a
# named pattern constrained to a set of literals.  Each root signs its own data rule  "lvs"/"doc<R>"/_ ; `mid` adds an
# intermediate certificate rule below the first root and a data rule signed by it or by the last root.  The text
# handed to the real compiler is generated from this description, and so is what a name is EXPECTED to match
# (`roots_matching`), independently of the compiled model.
ROOT_FAMILY = [
    # tag, roots [(rule letter, items)], mid
    ('single-literal', [('A', ['a'])], False),
    ('single-wild', [('A', [('zone', None)])], False),
    ('disjoint2', [('A', ['a']), ('B', ['b'])], False),
    ('disjoint2-mid', [('A', ['a']), ('B', ['b'])], True),
    ('overlap2', [('A', [('zone', None)]), ('B', ['b'])], False),
    ('overlap2-anon', [('A', [('_', None)]), ('B', ['b'])], False),
    ('same-pattern2', [('A', []), ('B', [])], False),
    ('depth2', [('A', []), ('B', ['b'])], False),
    ('depth2-deep', [('A', ['a']), ('B', ['a', 'mid'])], False),
    ('constrained2', [('A', [('zone', ('a', 'c'))]), ('B', [('zone', ('b', 'c'))])], False),
    ('disjoint3', [('A', ['a']), ('B', ['b']), ('C', ['c'])], False),
    ('overlap3-no-common', [('A', [('zone', None)]), ('B', ['b']), ('C', ['c'])], False),
    ('nested3', [('A', [('zone', None)]), ('B', [('zone', ('b', 'c'))]), ('C', ['c'])], True),
    ('no-signing', [], False),
]
ROOT_PREFIXES = [[], ['a'], ['b'], ['c'], ['docA'], ['a', 'mid'], ['a', 'b']]


def root_family_text(roots, mid):
    out = ['#KEY: "KEY"/_/_/_']
    for nm, items in roots:
        pat, cons = ['"lvs"'], []
        for it in items:
            if isinstance(it, str):
                pat.append(f'"{it}"')
            else:
                pat.append(it[0])
                if it[1] is not None:
                    cons.append(f'{it[0]}: ' + '|'.join(f'"{x}"' for x in it[1]))
        out.append(f'#root{nm}: ' + '/'.join(pat) + '/#KEY' + (' & {' + ', '.join(cons) + '}' if cons else ''))
        out.append(f'#doc{nm}: "lvs"/"doc{nm}"/_ <= #root{nm}')
    if not roots:
        out.append('#rootA: "lvs"/"a"/#KEY')
        out.append('#docA: "lvs"/"docA"/_')
    if mid:
        out.append(f'#mid: "lvs"/"x"/"mid"/#KEY <= #root{roots[0][0]}')
        out.append(f'#docM: "lvs"/"docM"/_ <= #mid | #root{roots[-1][0]}')
    return '\n'.join(out) + '\n'


def roots_matching(roots, site, prefix):
    """rule names of the roots that the key name /<site>/<prefix>/KEY/<id> (and its certificate names) must match"""
    out = set()
    for nm, items in roots:
        if site == 'lvs' and len(items) == len(prefix) and all(
                (it == x) if isinstance(it, str) else (it[1] is None or x in it[1]) for it, x in zip(items, prefix)):
            out.add(f'#root{nm}')
    return out


class Diverged(Exception):
    pass


# ------------------------------------------------------------------------------------------------
class Env:
    """Key pool, schemas, memoised oracles — built once per run."""

    def __init__(self, ctx):
        from Cryptodome.PublicKey import ECC, RSA
        from ndn.app_support.light_versec import compile_lvs, Checker, DEFAULT_USER_FNS
        import ndn.app_support.security_v2 as sv2
        self.ctx = ctx
        self.sv2 = sv2
        krng = random.Random(ctx.rng.getrandbits(64))

        def rb(n):
            return krng.getrandbits(8 * n).to_bytes(n, 'big') if n else b''
        self.keys = {'ec': [], 'rsa': [], 'ed': []}
        for _ in range(6):
            k = ECC.generate(curve='P-256', randfunc=rb)
            self.keys['ec'].append(('ec', k.export_key(format='DER'), k.public_key().export_key(format='DER')))
        for _ in range(3):
            k = RSA.generate(1024, randfunc=rb)
            self.keys['rsa'].append(('rsa', k.export_key(format='DER'), k.public_key().export_key(format='DER')))
        for _ in range(3):
            k = ECC.generate(curve='Ed25519', randfunc=rb)
            self.keys['ed'].append(('ed', k.export_key(format='DER'), k.public_key().export_key(format='DER')))
        self.schemas = []
        for text, fns in ((LVS_MAIN, DEFAULT_USER_FNS), (LVS_STRICT, DEFAULT_USER_FNS),
                          (LVS_LOOPY, DEFAULT_USER_FNS), (LVS_NOFN, DEFAULT_USER_FNS)):
            self.schemas.append(Checker(compile_lvs(text), fns))
        self.root_family = []           # (schema id, tag, roots, mid)
        for tag, roots, mid in ROOT_FAMILY:
            self.root_family.append((len(self.schemas), tag, roots, mid))
            self.schemas.append(Checker(compile_lvs(root_family_text(roots, mid)), DEFAULT_USER_FNS))
        self._ver = {}
        self._chk = {}
        self._ts = 0
        self.now = datetime(2026, 1, 1, tzinfo=timezone.utc)

    def pick(self, rng, kt=None):
        kt = kt or rng.choice(['ec', 'ec', 'rsa', 'ed'])
        return rng.choice(self.keys[kt])

    # -- building packets --------------------------------------------------------------------
    def signer(self, key, loc):
        from ndn.security.signer import Sha256WithEcdsaSigner, Sha256WithRsaSigner, Ed25519Signer
        return {'ec': Sha256WithEcdsaSigner, 'rsa': Sha256WithRsaSigner, 'ed': Ed25519Signer}[key[0]](loc, key[1])

    def cert_name(self, key_name, issuer, ver):
        from ndn.encoding import Name, Component
        return Name.from_str(key_name) + [Component.from_str(issuer), Component.from_version(ver)]

    def cert(self, key_name, issuer, ver, pub, signer):
        """real security_v2.new_cert with a fixed version component"""
        from ndn.encoding import Name, Component
        old = self.sv2.timestamp
        self.sv2.timestamp = lambda: ver
        try:
            name, wire = self.sv2.new_cert(Name.from_str(key_name), Component.from_str(issuer), pub, signer,
                                           self.now, self.now + timedelta(days=30))
        finally:
            self.sv2.timestamp = old
        return name, bytes(wire)

    def data(self, name, content, signer):
        from ndn.encoding import make_data, MetaInfo
        return bytes(make_data(name, MetaInfo(freshness_period=1000), content, signer=signer))

    # -- oracles recorded from the real code -------------------------------------------------
    def verify(self, alg, key, wire):
        """what the real verify function for signature type [alg] answers for key bits [key] on packet [wire]:
        0 / 1 / [code]"""
        k = (alg, key, wire)
        if k in self._ver:
            return self._ver[k]
        from Cryptodome.PublicKey import ECC, RSA
        from ndn.encoding import parse_data
        from ndn.security.validator import known_key_validator as KV
        _, _, _, sig = parse_data(wire)
        try:
            if alg == 1:
                r = KV.verify_rsa(RSA.import_key(bytes(key)), sig)
            elif alg == 3:
                r = KV.verify_ecdsa(ECC.import_key(bytes(key)), sig)
            elif alg == 4:
                r = KV.verify_hmac(key, sig)
            elif alg == 5:
                r = KV.verify_ed25519(ECC.import_key(bytes(key)), sig)
            else:
                raise AssertionError(alg)
            r = 1 if r else 0
        except Exception as e:   # noqa
            r = [exc_code(e)]
        self._ver[k] = r
        return r

    def check(self, si, name, cn):
        from ndn.encoding import Name
        k = (si, Name.to_bytes(name), Name.to_bytes(cn))
        if k not in self._chk:
            try:
                self._chk[k] = 1 if self.schemas[si].check(name, cn) else 0
            except Exception as e:   # noqa
                self._chk[k] = [exc_code(e)]
        return self._chk[k]

    def match(self, si, name):
        try:
            ms = sum((m[0] for m in self.schemas[si].match(name)), start=[])
            return [1, [m.encode() for m in ms]]
        except Exception as e:   # noqa
            return [0, exc_code(e)]


# ------------------------------------------------------------------------------------------------
class TweakSigner:
    """wraps a real signer; edits the SignatureInfo before it is encoded / the value after signing"""

    def __init__(self, base, tweak_info=None, flip_sig=False, size=None):
        self.base, self.tweak_info, self.flip_sig, self.size = base, tweak_info, flip_sig, size

    def write_signature_info(self, si):
        if self.base is not None:
            self.base.write_signature_info(si)
        if self.tweak_info:
            self.tweak_info(si)

    def get_signature_value_size(self):
        return self.base.get_signature_value_size() if self.base is not None else self.size

    def write_signature_value(self, wire, contents):
        if self.base is None:
            wire[:self.size] = bytes(self.size)
            return self.size
        n = self.base.write_signature_value(wire, contents)
        if self.flip_sig:
            wire[n - 1] ^= 0x01
        return n


def tampered(wire):
    """flip one bit of the last content byte of a Data wire (signature no longer covers it); certificates and
    data built here always have non-empty content right before SignatureInfo"""
    from ndn.encoding import parse_data
    _, _, content, sig = parse_data(wire)
    b = bytearray(wire)
    # locate the content bytes inside the wire
    c = bytes(content)
    idx = bytes(wire).rfind(c)
    b[idx + len(c) - 1] ^= 0x01
    return bytes(b)


def digest_comp(wire, how='right'):
    """the ImplicitSha256Digest component (type 1) of a Data wire, or a component of that type that is NOT its digest:
    one bit flipped / all zeros / one byte short / one byte long / empty"""
    from hashlib import sha256
    d = sha256(bytes(wire)).digest()
    if how == 'flipped':
        d = d[:-1] + bytes([d[-1] ^ 0x01])
    elif how == 'flipped-first':
        d = bytes([d[0] ^ 0x80]) + d[1:]
    elif how == 'zeros':
        d = bytes(32)
    elif how == 'short':
        d = d[:31]
    elif how == 'long':
        d = d + b'\x00'
    elif how == 'empty':
        d = b''
    else:
        assert how == 'right', how
    return bytes([0x01, len(d)]) + d


class World:
    """packets (pid = index), store (name bytes -> response), for one scenario"""

    def __init__(self, env):
        self.env = env
        self.pkts = []          # wires
        self.store = {}         # Name.to_bytes(name) -> ('data', pid) | ('nack',) | ('fail',) ; absent = silence
        self.parsed = {}

    def add(self, wire):
        wire = bytes(wire)
        if wire in self.pkts:
            return self.pkts.index(wire)
        self.pkts.append(wire)
        return len(self.pkts) - 1

    def serve(self, name, pid):
        from ndn.encoding import Name
        self.store[Name.to_bytes(name)] = ('data', pid)

    def respond(self, name, what):
        from ndn.encoding import Name
        self.store[Name.to_bytes(name)] = (what,)

    def lookup(self, name):
        """What the network answers to an Interest for [name] (list of components or wire of the name): the entry of
        the store for exactly that name, else -- [name] is a FULL name <n>/sha256digest=<d> -- the Data retrievable
        under <n> if and only if the SHA-256 of its wire is <d> (what a forwarder / NDNApp lets through for an Interest
        that carries an implicit digest), else nothing (the Interest times out).  Computed here with hashlib from the
        wires of the world, never from what the library does."""
        from ndn.encoding import Name
        nb = name if isinstance(name, (bytes, bytearray)) else Name.to_bytes(name)
        r = self.store.get(bytes(nb))
        if r is not None:
            return r
        comps = [bytes(c) for c in Name.from_bytes(nb)] if isinstance(name, (bytes, bytearray)) else [bytes(c) for c in name]
        if comps and comps[-1][:1] == b'\x01':
            base = self.store.get(Name.to_bytes(comps[:-1]))
            if base is not None and base[0] == 'data' and digest_comp(self.pkts[base[1]]) == comps[-1]:
                return base
        return None

    def full_locators(self):
        """the key locators of the world's packets that are full names (last component an implicit digest)"""
        out = []
        for pid in range(len(self.pkts)):
            kl = self.kl(pid)
            if kl is not None and kl[-1][:1] == b'\x01' and kl not in out:
                out.append(kl)
        return out

    def parse(self, pid):
        if pid not in self.parsed:
            from ndn.encoding import parse_data
            name, _, content, sig = parse_data(self.pkts[pid])
            si = sig.signature_info
            if si is None:
                s = []
            else:
                kl = si.key_locator.name if si.key_locator is not None else None
                s = [[int(si.signature_type) if si.signature_type is not None else 0,
                      [] if kl is None else [[bytes(c) for c in kl]]]]
            self.parsed[pid] = dict(name=[bytes(c) for c in name], sig=s,
                                    content=[] if content is None else [bytes(content)],
                                    ptrs=sig, fname=name)
        return self.parsed[pid]

    def kl(self, pid):
        p = self.parse(pid)
        if p['sig'] and p['sig'][0][1] and p['sig'][0][1][0]:
            return p['sig'][0][1][0]
        return None

    # -- tables for the model / spec ---------------------------------------------------------
    def tables(self, anchors, schema_ids):
        """anchors: pids whose content may be used as an anchor key."""
        from ndn.encoding import Name
        P = []
        for pid in range(len(self.pkts)):
            p = self.parse(pid)
            P.append([pid, p['name'], p['sig'], p['content']])
        F = []
        for nb, r in self.store.items():
            n = [bytes(c) for c in Name.from_bytes(nb)]
            F.append([n, [0, r[1]] if r[0] == 'data' else ([1] if r[0] == 'nack' else [3, 1000])])
        for kl in self.full_locators():
            # a full name is retrievable iff something retrievable under the name has that digest (World.lookup)
            r = self.lookup(kl)
            if r is not None and Name.to_bytes(kl) not in self.store:
                F.append([kl, [0, r[1]]])
        akeys = set()
        for a in anchors:
            c = self.parse(a)['content']
            if c:
                akeys.add(c[0])
        V, seen = [], set()
        for pid in range(len(self.pkts)):
            p = self.parse(pid)
            if not p['sig']:
                continue
            alg = p['sig'][0][0]
            if alg not in (1, 3, 4, 5):
                continue
            keys = set(akeys)
            if p['content']:
                keys.add(p['content'][0])        # self-signature (anchors)
            kl = self.kl(pid)
            if kl is not None:
                r = self.lookup(kl)
                if r and r[0] == 'data':
                    c = self.parse(r[1])['content']
                    if c:
                        keys.add(c[0])
            for k in keys:
                if (alg, k, pid) not in seen:
                    seen.add((alg, k, pid))
                    V.append([alg, k, pid, self.env.verify(alg, k, self.pkts[pid])])
        S = []
        for si in schema_ids:
            ck = self.env.schemas[si]
            C = []
            for pid in range(len(self.pkts)):
                kl = self.kl(pid)
                if kl is not None:
                    C.append([self.parse(pid)['name'], kl, self.env.check(si, self.parse(pid)['name'], kl)])
            M = []
            for a in anchors:
                M.append([self.parse(a)['name'], self.env.match(si, self.parse(a)['name'])])
            S.append([1 if ck.validate_user_fns() else 0, sorted(r.encode() for r in ck.root_of_trust()), M, C])
        return [P, F, V], S


# ------------------------------------------------------------------------------------------------
class FakeFace:
    running = True

    def __init__(self, world, loop):
        self.world, self.loop = world, loop
        self.app = None
        self.mem = None         # CallerMemory: the form in which delivered Data reach the application
        self.sent = []
        self.flag_errors = []

    def begin(self):
        self.sent = []

    def send(self, wire):
        from ndn.encoding import parse_interest, Name, TypeNumber
        from ndn.types import NetworkError
        name, param, _, _ = parse_interest(wire)
        if len(self.sent) >= FUEL:
            raise Diverged()
        self.sent.append([bytes(c) for c in name])
        if not param.must_be_fresh or param.can_be_prefix:
            self.flag_errors.append((bool(param.must_be_fresh), bool(param.can_be_prefix)))
        r = self.world.lookup(name)
        if r is None:
            return
        if r[0] == 'data':
            wire = self.world.pkts[r[1]]
            self.loop.create_task(self.app._receive(TypeNumber.DATA, self.mem.deliver(wire) if self.mem else wire))
        elif r[0] == 'nack':
            self.loop.call_soon(self.app._on_nack, name, 150)
        elif r[0] == 'fail':
            raise NetworkError('injected')


# ---- the caller's memory -----------------------------------------------------------------------------
# Every wire the library is GIVEN (trust anchor, packet to validate, certificate Data delivered by the face) sits
# in a buffer the CALLER owns, and BinaryStr admits bytes, bytearray and memoryview.  The caller may load the next
# wire into the same buffer or overwrite it once the call it was handed to has returned: what a validator judges
# against is what it was given at that call, not what the buffer holds later.
FORMS_MUTABLE = ['bytearray', 'mv-bytearray', 'mv-window']
FORMS_IMMUTABLE = ['bytes', 'mv-bytes']
FORMS = FORMS_MUTABLE + FORMS_IMMUTABLE
WINDOW_CAP, WINDOW_OFF = 1536, 24
# The face overwrites the wires it delivered once the top-level validation has answered (a face that receives into a
# reusable buffer).  The library's own faces give a fresh bytes object per packet; MemoryKeyStorage used to keep a view
# of the delivered certificate (docs/C14.md, "receive buffer reused"), repaired by fix: a338b22 -- judged since.
RECEIVE_BUFFER_REUSED = True


class CallerMemory:
    """buffers of the application: id -> the object handed to the library, the bytearray behind it (None for the
    immutable forms) and what it holds: a pid of the world, or None once it was scribbled over"""

    def __init__(self, world, forms):
        self.world = world
        self.forms = dict(forms or {})
        self.bufs = {}          # id -> [obj, backing bytearray | None, lo, hi, holds]
        self.retired = []       # backing stores the caller replaced (still its own memory; overwritten on retirement)
        self.delivered = []     # backing stores of the Data the face delivered
        self.log = []

    def form(self, role):
        return self.forms.get(role, 'bytes')

    def make(self, form, wire):
        """a fresh buffer holding [wire]: (object for the library, backing bytearray or None, lo, hi)"""
        wire = bytes(wire)
        n = len(wire)
        if form == 'bytes':
            return wire, None, 0, n
        if form == 'mv-bytes':
            return memoryview(wire), None, 0, n
        if form == 'bytearray':
            b = bytearray(wire)
            return b, b, 0, n
        if form == 'mv-bytearray':
            b = bytearray(wire)
            return memoryview(b), b, 0, n
        if form == 'mv-window':
            b = bytearray(b'\xee' * max(WINDOW_CAP, n + 2 * WINDOW_OFF))
            b[WINDOW_OFF:WINDOW_OFF + n] = wire
            return memoryview(b)[WINDOW_OFF:WINDOW_OFF + n], b, WINDOW_OFF, WINDOW_OFF + n
        raise AssertionError(form)

    def load(self, bid, role, pid):
        """buf[:] = wire -- in place whenever the buffer can hold it, else the caller takes a new one"""
        wire = self.world.pkts[pid]
        n = len(wire)
        cur = self.bufs.get(bid)
        if cur is not None and cur[1] is not None:
            obj, back, lo, hi, _ = cur
            if hi - lo == n:
                back[lo:hi] = wire                         # same size: never a resize, always allowed
                self.bufs[bid] = [obj, back, lo, hi, pid]
                self.log.append(('in-place', bid, pid))
                return
            if self.form(role) == 'mv-window' and lo + n + WINDOW_OFF <= len(back):
                back[lo:lo + n] = wire                     # the same store, the window re-cut
                self.bufs[bid] = [memoryview(back)[lo:lo + n], back, lo, lo + n, pid]
                self.log.append(('in-place', bid, pid))
                return
            back[:] = bytes(len(back))                     # does not fit: wiped and put aside, a new one allocated
            self.retired.append(back)
        obj, back, lo, hi = self.make(self.form(role), wire)
        self.bufs[bid] = [obj, back, lo, hi, pid]
        self.log.append(('fresh', bid, pid))

    def scribble(self, bid, how):
        cur = self.bufs.get(bid)
        if cur is None or cur[1] is None:
            return False                                   # immutable (or nothing there): nothing the caller can do
        self.overwrite(cur[1], how)
        cur[4] = None
        return True

    @staticmethod
    def overwrite(back, how):
        if how == 'zero':
            back[:] = bytes(len(back))
        elif how == 'invert':
            back[:] = bytes(x ^ 0xff for x in back)
        elif how == 'shift':
            back[:] = bytes(back[1:]) + b'\x00'            # every offset now points one byte further
        else:
            raise AssertionError(how)

    def given(self, bid):
        cur = self.bufs[bid]
        assert cur[4] is not None, 'a scribbled buffer is never handed to the library'
        return cur[0], cur[4]

    def deliver(self, wire):
        obj, back, _, _ = self.make(self.form('cert'), wire)
        if back is not None:
            self.delivered.append(back)
        return obj

    def recycle_delivered(self, how='zero'):
        for back in self.delivered:
            self.overwrite(back, how)
        self.delivered = []


def value_ops(world, ops):
    """The history as the library is GIVEN it: every hand-over of a buffer replaced by the wire the buffer holds at
    that moment, the caller's own memory operations dropped.  This is what the model, the specification and the
    oracle see -- by the property the verdicts may depend on nothing else."""
    holds, out = {}, []
    for op in ops:
        if op[0] == 'load':
            holds[op[1]] = op[2]
        elif op[0] == 'scribble':
            holds[op[1]] = None
        elif op[0] in ('lvs', 'cascade') and isinstance(op[-2], tuple) and op[-2][0] == 'buf':
            pid = holds.get(op[-2][1])
            assert pid is not None, 'generator: constructor from an empty / scribbled buffer'
            out.append(op[:-2] + (pid, op[-1]))
        elif op[0] == 'val' and isinstance(op[2], tuple):
            pid = holds.get(op[2][1])
            assert pid is not None, 'generator: validation of an empty / scribbled buffer'
            out.append(('val', op[1], pid))
        else:
            out.append(op)
    return out


def run_impl(env, world, ops, forms=None):
    """ops: ('storage',) | ('lvs', schema_id, anchor, sarg) | ('cascade', anchor, sarg) | ('val', inst, packet)
    | ('load', buffer, pid) | ('scribble', buffer, how)
    anchor = pid | ('raw', bytes) | ('buf', buffer);  packet = pid | ('buf', buffer);  sarg = None | index of a
    'storage' op;  forms = {'anchor' | 'packet' | 'cert': one of FORMS}.  Returns observations (('mem', ..) for the
    caller's own memory operations)."""
    from ndn.app import NDNApp
    from ndn.encoding import parse_data
    from ndn.app_support.light_versec import lvs_validator
    from ndn.security.validator.cascade_validator import CascadeChecker, MemoryKeyStorage
    loop = vtloop.new_loop()
    face = FakeFace(world, loop)
    app = NDNApp(face=face, keychain=object())
    face.app = app
    storages, insts, obs = [], [], []
    mem = CallerMemory(world, forms)
    face.mem = mem if forms else None

    async def go():
        for op in ops:
            if op[0] == 'storage':
                storages.append(MemoryKeyStorage())
                obs.append(('storage',))
            elif op[0] == 'load':
                mem.load(op[1], 'anchor' if str(op[1]).startswith('A') else 'packet', op[2])
                obs.append(('mem', 'load', mem.log[-1][0]))
            elif op[0] == 'scribble':
                obs.append(('mem', 'scribbled' if mem.scribble(op[1], op[2]) else 'immutable'))
            elif op[0] in ('lvs', 'cascade'):
                anchor, sarg = op[-2], op[-1]
                if isinstance(anchor, tuple):
                    wire = mem.given(anchor[1])[0] if anchor[0] == 'buf' else anchor[1]
                elif forms:
                    wire = mem.make(mem.form('anchor'), world.pkts[anchor])[0]
                else:
                    wire = world.pkts[anchor]
                extra = [] if sarg is None else [storages[sarg]]
                try:
                    if op[0] == 'lvs':
                        v = lvs_validator(env.schemas[op[1]], app, wire, *extra)
                    else:
                        v = CascadeChecker(app, wire, *extra)
                    insts.append(v)
                    obs.append(('new', 'ok'))
                except Exception as e:   # noqa
                    obs.append(('new', 'err', exc_code(e), type(e).__name__))
            else:
                if op[1] >= len(insts):
                    obs.append(('bad',))
                    continue
                face.begin()
                try:
                    if isinstance(op[2], tuple) or forms:
                        # what an application does with a wire in its own buffer: parse it there, give the views
                        given = (mem.given(op[2][1])[0] if isinstance(op[2], tuple)
                                 else mem.make(mem.form('packet'), world.pkts[op[2]])[0])
                        pname, _, _, pptrs = parse_data(given)
                    else:
                        p = world.parse(op[2])
                        pname, pptrs = p['fname'], p['ptrs']
                    # watchdog on the virtual clock: a validator that waits for something nobody will ever provide
                    # (no Interest outstanding, no timer) must end the history, not hang the harness
                    r = await asyncio.wait_for(insts[op[1]](pname, pptrs), WATCHDOG)
                    obs.append(('val', 'ok', 1 if r else 0, list(face.sent)))
                except TimeoutError:
                    obs.append(('val', 'hang', None, list(face.sent)))
                except Diverged:
                    obs.append(('val', 'fuel', None, list(face.sent)))
                except (Exception, asyncio.CancelledError) as e:   # noqa  (awaiting a cancelled future raises CancelledError)
                    obs.append(('val', 'err', exc_code(e), list(face.sent), type(e).__name__))
                if RECEIVE_BUFFER_REUSED:
                    mem.recycle_delivered()
    try:
        loop.run_until_complete(go())
        loop.settle()
    finally:
        for t in asyncio.all_tasks(loop):
            t.cancel()
        loop.settle()
        loop.close()
        asyncio.set_event_loop(None)
    return obs, face.flag_errors


def model_ops(world, ops, schema_ids):
    out = []
    nst = 0
    smap = {}
    for op in ops:
        if op[0] == 'storage':
            smap[len(smap)] = None
            out.append([0])
        elif op[0] in ('lvs', 'cascade'):
            anchor, sarg = op[-2], op[-1]
            if isinstance(anchor, tuple):
                from ndn.encoding import parse_data
                try:
                    parse_data(anchor[1])
                    raise AssertionError('raw anchor must be undecodable')
                except AssertionError:
                    raise
                except Exception as e:   # noqa
                    a = [0, exc_code(e)]
            else:
                a = [1, anchor]
            sa = [] if sarg is None else [2 + sarg]      # storages are created before any instance: ids 2,3,..
            if op[0] == 'lvs':
                out.append([1, schema_ids.index(op[1]), a, sa])
            else:
                out.append([2, a, sa])
        else:
            out.append([3, op[1], op[2]])
    return out


def model_mem_ops(world, ops, schema_ids):
    """the history AS WRITTEN for request 5 (Model/ValidatorMem.v): buffers by number, loads carry the wire,
    hand-overs name the buffer; a wire given directly (no buffer of the history) gets a buffer of its own"""
    ids, out = {}, []

    def bid(b):
        return ids.setdefault(b, len(ids))

    def direct(pid):
        out.append([10, bid(('direct', len(out))), [1, pid]])
        return len(ids) - 1
    for op in ops:
        if op[0] == 'storage':
            out.append([0])
        elif op[0] == 'load':
            out.append([10, bid(op[1]), [1, op[2]]])
        elif op[0] == 'scribble':
            out.append([11, bid(op[1])])
        elif op[0] in ('lvs', 'cascade'):
            anchor, sarg = op[-2], op[-1]
            b = bid(anchor[1]) if isinstance(anchor, tuple) else direct(anchor)
            sa = [] if sarg is None else [2 + sarg]
            out.append([1, schema_ids.index(op[1]), b, sa] if op[0] == 'lvs' else [2, b, sa])
        else:
            out.append([3, op[1], bid(op[2][1]) if isinstance(op[2], tuple) else direct(op[2])])
    return out


def norm_model_obs(m):
    """model observation -> same shape as run_impl's"""
    out = []
    for o in m:
        if o[0] == 0:
            out.append(('storage',))
        elif o[0] == 1:
            r = o[1]
            out.append(('new', 'ok') if r[0] == 1 else ('new', 'err', r[1]))
        elif o[0] == 2:
            r, tr = o[1], [[bytes(c) for c in n] for n in o[2]]
            if r[0] == 1:
                out.append(('val', 'ok', r[1], tr))
            elif r[1] == 99:
                out.append(('val', 'fuel', None, tr))
            else:
                out.append(('val', 'err', r[1], tr))
        else:
            out.append(('bad',))
    return out


def same_obs(a, b):
    if a[0] != b[0]:
        return False
    if a[0] == 'new':
        return a[1] == b[1] and (a[1] == 'ok' or a[2] == b[2])
    if a[0] == 'val':
        return a[1] == b[1] and a[2] == b[2] and a[3] == b[3]
    return True


# ------------------------------------------------------------------------------------------------
def check_history(ctx, env, world, ops, tag, legacy=False, forms=None):
    """run implementation + model + specification on one history; report.  With buffers (ops load / scribble,
    hand-overs ('buf', id)) the implementation runs the history as written, the model and the oracle run the
    history of the wires GIVEN at each call (value_ops)."""
    full_ops = [tuple(o) for o in ops]
    ops = value_ops(world, full_ops)
    schema_ids = sorted({op[1] for op in ops if op[0] == 'lvs'})
    anchors = sorted({op[-2] for op in ops if op[0] in ('lvs', 'cascade') and not isinstance(op[-2], tuple)})
    W, S = world.tables(anchors, schema_ids)
    impl_all, flag_errors = run_impl(env, world, full_ops, forms)
    impl = [o for o in impl_all if o[0] != 'mem']
    for o in impl_all:
        if o[0] == 'mem':
            ctx.stat('caller-memory:' + ':'.join(o[1:]))
    case = {'tag': tag, 'ops': [list(o) for o in full_ops], 'pkts': world.pkts,
            'store': {k.hex(): list(v) for k, v in world.store.items()}}
    if forms:
        case['forms'] = dict(forms)
        case['given'] = [list(o) for o in ops]
    m = ctx.call([1, 1 if legacy else 0, FUEL, W, S, model_ops(world, ops, schema_ids)])
    if is_err(m):
        ctx.disagree('history', 'model rejected the request', case, m, impl)
        return impl
    mo = norm_model_obs(m)
    if len(full_ops) != len(ops):
        # the history as written, memory operations included, on the model of the caller's memory (request 5): it
        # must be the history of the calls (theorem C14_memory_history_is_call_history, here on the extracted code)
        mm = ctx.call([5, 1 if legacy else 0, FUEL, W, S, model_mem_ops(world, full_ops, schema_ids)])
        ctx.stat('caller-memory:written-history-on-the-memory-model')
        if is_err(mm) or norm_model_obs([x[0] for x in mm if x]) != mo:
            ctx.disagree('caller-memory', 'the model of the history with buffers differs from the model of the calls',
                         case, mm, mo)
    if len(mo) != len(impl) or not all(same_obs(a, b) for a, b in zip(mo, impl)):
        k = next((i for i, (a, b) in enumerate(zip(mo, impl)) if not same_obs(a, b)), None)
        site = 'history'
        if k is not None:
            site = {'new': 'constructor', 'val': 'validate'}.get(impl[k][0], 'history')
        ctx.disagree(site, f'observation #{k} differs', case, mo, impl)
    if flag_errors:
        ctx.disagree('cert-interest-flags', 'certificate Interest is not (MustBeFresh, not CanBePrefix)', case,
                     [1, 0], flag_errors[0])

    # ---- direct oracle: the specification evaluated on what the implementation did -------------------
    # (the specification is a function of its arguments: one evaluation per (world tables, question) and scenario)
    memo = world.__dict__.setdefault('_spec_memo', {})
    wkey = (tuple(anchors), tuple(schema_ids), len(world.pkts), hash(frozenset(world.store.items())))

    def spec(key, request):
        if (wkey, key) not in memo:
            memo[(wkey, key)] = ctx.call(request())
        return memo[(wkey, key)]
    insts = []      # (kind, schema_id, anchor_pid, storage key)
    shared = {}
    k = 0
    for op, ob in zip(ops, impl):
        if op[0] in ('lvs', 'cascade'):
            anchor = op[-2]
            good_spec = None
            if not isinstance(anchor, tuple):
                if op[0] == 'lvs':
                    si = schema_ids.index(op[1])
                    r = spec(('ctor', op[1], anchor), lambda: [3, W, S[si], anchor])
                    good_spec = bool(r[0] and r[1] and r[2])
                else:
                    r = spec(('ctor', None, anchor),
                             lambda: [3, W, [1, [], [[world.parse(anchor)['name'], [1, [b'x']]]], []], anchor])
                    good_spec = bool(r[2])
            else:
                good_spec = False
            built = ob[1] == 'ok'
            if built and not good_spec:
                ctx.violation(op[0] + '.__init__', 'builds-with-bad-anchor',
                              'validator was built although the anchor does not match the roots of trust / is not self-signed', case)
            if good_spec and not built:
                ctx.violation(op[0] + '.__init__', 'refuses-good-anchor',
                              f'constructor raised {ob[3]} although the anchor matches all roots of trust and is self-signed', case)
            if built:
                skey = ('d', len(insts)) if op[-1] is None else ('s', op[-1])
                insts.append((op[0], op[1] if op[0] == 'lvs' else None, anchor, skey))
                shared.setdefault(skey, []).append(len(insts) - 1)
    verdicts = {}
    for op, ob in zip(ops, impl):
        if op[0] != 'val' or ob[0] != 'val':
            continue
        kind, sid, anchor, skey = insts[op[1]]
        # explicit sharing of one storage object by validators with different anchor/schema is outside the theorem
        cfgs = {(insts[i][0], insts[i][1], world.pkts[insts[i][2]]) for i in shared[skey]}
        if len(cfgs) > 1:
            ctx.stat('oracle-skipped:explicitly-shared-storage')
            continue
        a = world.parse(anchor)
        trust = [a['name'], a['content'][0], [] if kind == 'cascade' else [S[schema_ids.index(sid)][3]]]
        ch = spec(('chain', kind, sid, anchor, op[2]), lambda: [2, 64, W, trust, op[2]])
        chain = None if ch == [] else bool(ch[0])
        accepted = ob[1] == 'ok' and ob[2] == 1
        site = 'lvs_validator' if kind == 'lvs' else 'CascadeChecker.validate'
        if accepted and chain is not True:
            ctx.violation(site, 'accepts-without-chain', 'packet accepted although no valid chain to the anchor exists', case)
        if chain is True and not accepted:
            ctx.violation(site, 'rejects-with-chain', f'packet with a valid chain not accepted ({ob[1]} {ob[2]})', case)
        if ob[1] == 'hang' and chain is not None:
            ctx.violation(site, 'no-verdict-finite-chain',
                          'the validation neither answers nor has a certificate Interest outstanding (virtual-time watchdog)', case)
        if ob[1] == 'fuel' or (ob[1] == 'hang' and chain is None):
            ctx.violation('CascadeChecker.validate', 'no-verdict-certificate-loop',
                          'certificates that name each other as signers: the validator keeps fetching and never answers', case)
        elif ob[1] == 'err':
            ctx.stat(f'verdict-by-exception:{ob[4]}')
        key = (kind, sid, world.pkts[anchor], op[2])
        if ob[1] not in ('fuel', 'hang'):
            if key in verdicts and verdicts[key] != accepted:
                ctx.violation(site, 'verdict-depends-on-history',
                              'same schema, anchor, packet and certificates: different verdicts at different points of the history', case)
            verdicts.setdefault(key, accepted)
    return impl


# ------------------------------------------------------------------------------------------------
LEVELS = ['root', 'admin', 'author', 'editor']


class Hier:
    """A certificate hierarchy under LVS_MAIN:  root <- admin <- author <- editor, plus leaf data at every level."""

    def __init__(self, env, rng, ktypes=None, rid='r'):
        self.env, self.rng = env, rng
        ktypes = ktypes or [rng.choice(['ec', 'rsa', 'ed', 'ec']) for _ in range(4)]
        self.ktypes = ktypes
        used = set()

        def fresh(kt):
            for _ in range(50):
                k = env.pick(rng, kt)
                if k[2] not in used:
                    used.add(k[2])
                    return k
            return k
        self.key = {lv: fresh(kt) for lv, kt in zip(LEVELS, ktypes)}
        self.used = used
        self.who = {'admin': 'alice', 'author': 'bob', 'editor': 'carol'}
        self.kid = {'root': rid, 'admin': 'ka', 'author': 'kb', 'editor': 'kc'}
        self.names = {}
        self.names['root'] = env.cert_name(f'/lvs/KEY/{rid}', 'self', 1)
        self.names['admin'] = env.cert_name('/lvs/admin/alice/KEY/ka', rid, 1)
        self.names['author'] = env.cert_name('/lvs/author/bob/KEY/kb', 'alice', 1)
        self.names['editor'] = env.cert_name('/lvs/editor/carol/KEY/kc', 'bob', 1)

    def key_name(self, lv):
        from ndn.encoding import Name
        return Name.to_str(self.names[lv][:-2])

    def issuer_comp(self, lv):
        from ndn.encoding import Name, Component
        return Component.to_str(self.names[lv][-2])

    def build_cert(self, lv, signer=None, pub=None):
        """certificate of level lv, by default properly signed by the level above"""
        i = LEVELS.index(lv)
        up = LEVELS[i - 1] if i else 'root'
        if signer is None:
            signer = self.env.signer(self.key[up], self.names[up])
        pub = self.key[lv][2] if pub is None else pub
        n, w = self.env.cert(self.key_name(lv), self.issuer_comp(lv), 1, pub, signer)
        assert n == self.names[lv]
        return w

    def leaf_name(self, depth):
        # depth = number of certificates in the chain below the anchor: 0 notice, 1 memo, 2 article, 3 note
        return ['/lvs/notice/n1', '/lvs/memo/alice/m1', '/lvs/article/bob/p1', '/lvs/note/carol/t1'][depth]


def base_world(env, h, depth):
    """all certificates up to [depth] served, the leaf built; returns world, anchor pid, chain = [leaf, cert.., ] pids"""
    w = World(env)
    anchor = w.add(h.build_cert('root'))
    chain = []
    for lv in LEVELS[1:depth + 1]:
        pid = w.add(h.build_cert(lv))
        w.serve(h.names[lv], pid)
        chain.append(pid)
    signer_lv = LEVELS[depth]
    leaf = w.add(env.data(h.leaf_name(depth), b'payload', env.signer(h.key[signer_lv], h.names[signer_lv])))
    return w, anchor, [leaf] + chain[::-1]


def other_key(env, rng, h, kt=None):
    for _ in range(50):
        k = env.pick(rng, kt)
        if k[2] not in h.used:
            return k
    return k


DEVIATIONS = ['none', 'forged-sig', 'tampered', 'wrong-signer', 'subst-key-same', 'subst-key-other', 'subst-key-junk',
              'subst-key-empty', 'missing', 'nack', 'neterr', 'no-siginfo', 'digest-sig', 'keydigest-locator',
              'empty-locator', 'sigtype-mismatch', 'sigtype-unknown', 'sigtype-hmac', 'hmac-with-pubkey', 'schema-denied', 'skip-level',
              'attacker-cert', 'anchor-name-forged', 'anchor-near-locator']
# KeyLocator of ONE element given as a FULL name <certificate name>/sha256digest=<d>: the right digest of the signer's
# retrievable certificate, or a digest that nothing retrievable has
FULLNAME_WRONG = ['flipped', 'flipped-first', 'zeros', 'short', 'long', 'empty', 'other-cert', 'superseded']
FULLNAME_FORMS = ['right'] + FULLNAME_WRONG
DEVIATIONS += ['fullname-' + k for k in FULLNAME_FORMS]


def fullname_world(env, rng, h, depth, forms, anchor_served=False):
    """The hierarchy of [h] down to [depth] in which the KeyLocator of element e (0 = leaf, k = k-th certificate counted
    from the leaf; element [depth] is signed by the anchor) has the form forms[e]:
      plain        the signer's certificate name
      right        that name + the implicit digest of the signer's certificate AS RETRIEVABLE (of the anchor wire for
                   the element signed by the anchor; the anchor is retrievable only if anchor_served)
      flipped, flipped-first, zeros, short (31 bytes), long (33), empty   a digest component that is not that digest
      other-cert   the digest of ANOTHER retrievable certificate (a bystander issued by the anchor)
      superseded   the digest of a copy of the signer's certificate (same name, same issuer, another key) that is
                   not retrievable
    Every signature is genuine and every certificate is retrievable under its name: whether there is a chain is decided
    by the locators alone.  Built top-down (the digest of a certificate depends on its own locator).
    Returns world, anchor pid, leaf pid, {e: pid}, mk_loc(form, signer level, signer wire)."""
    w = World(env)
    anchor = w.add(h.build_cert('root'))
    if anchor_served:
        w.serve(h.names['root'], anchor)
    kz = other_key(env, rng, h)
    nz, wz = env.cert('/lvs/admin/zed/KEY/kz', h.kid['root'], 1, kz[2], env.signer(h.key['root'], h.names['root']))
    bystander = w.add(wz)
    w.serve(nz, bystander)

    def mk_loc(form, signer_lv, signer_wire):
        nm = [bytes(c) for c in h.names[signer_lv]]
        if form == 'plain':
            return nm
        if form == 'other-cert':
            return nm + [digest_comp(w.pkts[bystander])]
        if form == 'superseded':
            k2 = other_key(env, rng, h, h.key[signer_lv][0])
            return nm + [digest_comp(h.build_cert(signer_lv, pub=k2[2]))]
        return nm + [digest_comp(signer_wire, form)]
    elems = {}
    above = w.pkts[anchor]
    for e in range(depth, -1, -1):
        signer_lv = LEVELS[depth - e]
        signer = env.signer(h.key[signer_lv], mk_loc(forms[e], signer_lv, above))
        if e == 0:
            pid = w.add(env.data(h.leaf_name(depth), b'payload', signer))
        else:
            lv = LEVELS[depth - e + 1]
            pid = w.add(h.build_cert(lv, signer=signer))
            w.serve(h.names[lv], pid)
        elems[e] = pid
        above = w.pkts[pid]
    return w, anchor, elems[0], elems, mk_loc


def deviate(env, rng, h, depth, link, dev):
    """World with ONE deviation at link [link]: element link (0 = leaf, k = k-th certificate counted from the leaf)
    signed by element link+1 (depth = the anchor).  Returns (world, anchor pid, leaf pid) or None if not applicable."""
    from ndn.encoding import Name
    if dev.startswith('fullname-'):
        forms = ['plain'] * (depth + 1)
        forms[link] = dev[len('fullname-'):]
        return fullname_world(env, rng, h, depth, forms, anchor_served=rng.random() < 0.5)[:3]
    w, anchor, chain = base_world(env, h, depth)
    # element e: level of the element and of its signer
    lv_of = lambda e: None if e == 0 else LEVELS[depth - e + 1]      # noqa
    signer_lv = LEVELS[depth - link]                                    # level whose key signs element [link]
    elem_lv = lv_of(link)
    skey, sname = h.key[signer_lv], h.names[signer_lv]

    def rebuild(signer, pub=None, name=None):
        """rebuild element [link] with another signer; serve it (if a certificate); return its pid"""
        if elem_lv is None:
            pid = w.add(env.data(name or h.leaf_name(depth), b'payload', signer))
        else:
            pid = w.add(h.build_cert(elem_lv, signer=signer, pub=pub))
            w.serve(h.names[elem_lv], pid)
        return pid

    leaf = chain[0]
    base_signer = env.signer(skey, sname)
    if dev == 'none':
        pass
    elif dev == 'forged-sig':
        pid = rebuild(TweakSigner(base_signer, flip_sig=True))
        leaf = pid if link == 0 else leaf
    elif dev == 'tampered':
        wire = tampered(w.pkts[chain[link]])
        pid = w.add(wire)
        if elem_lv is None:
            leaf = pid
        else:
            w.serve(h.names[elem_lv], pid)
    elif dev == 'wrong-signer':
        k2 = other_key(env, rng, h, skey[0])
        pid = rebuild(env.signer(k2, sname))
        leaf = pid if link == 0 else leaf
    elif dev in ('subst-key-same', 'subst-key-other', 'subst-key-junk', 'subst-key-empty'):
        # the certificate of the SIGNER of element [link] carries another key (still properly signed by its issuer)
        if link == depth:
            return None          # the signer is the anchor
        if dev == 'subst-key-same':
            pub = other_key(env, rng, h, skey[0])[2]
        elif dev == 'subst-key-other':
            pub = other_key(env, rng, h, {'ec': 'rsa', 'rsa': 'ed', 'ed': 'ec'}[skey[0]])[2]
        elif dev == 'subst-key-junk':
            pub = b'\x30\x03\x02\x01\x05'
        else:
            pub = b''
        pid = w.add(h.build_cert(signer_lv, pub=pub))
        w.serve(h.names[signer_lv], pid)
    elif dev in ('missing', 'nack', 'neterr'):
        if link == depth:
            return None
        nb = Name.to_bytes(sname)
        del w.store[nb]
        if dev == 'nack':
            w.respond(sname, 'nack')
        elif dev == 'neterr':
            w.respond(sname, 'fail')
    elif dev == 'no-siginfo':
        if elem_lv is not None:
            # an unsigned "certificate": plain Data without signer under the certificate name
            pid = w.add(env.data(h.names[elem_lv], h.key[elem_lv][2], None))
            w.serve(h.names[elem_lv], pid)
        else:
            leaf = w.add(env.data(h.leaf_name(depth), b'payload', None))
    elif dev == 'digest-sig':
        from ndn.security.signer import DigestSha256Signer
        pid = rebuild(DigestSha256Signer())
        leaf = pid if link == 0 else leaf
    elif dev == 'keydigest-locator':
        def tw(si):
            si.key_locator.name = None
            si.key_locator.key_digest = b'\x01' * 32
        pid = rebuild(TweakSigner(base_signer, tweak_info=tw))
        leaf = pid if link == 0 else leaf
    elif dev == 'empty-locator':
        def tw(si):
            si.key_locator.name = []
        pid = rebuild(TweakSigner(base_signer, tweak_info=tw))
        leaf = pid if link == 0 else leaf
    elif dev in ('sigtype-mismatch', 'sigtype-unknown', 'sigtype-hmac'):
        ty = {'sigtype-unknown': 200, 'sigtype-hmac': 4}.get(dev) or {'ec': 1, 'rsa': 5, 'ed': 3}[skey[0]]

        def tw(si):
            si.signature_type = ty
        pid = rebuild(TweakSigner(base_signer, tweak_info=tw))
        leaf = pid if link == 0 else leaf
    elif dev == 'hmac-with-pubkey':
        # the attacker "signs" with HMAC, using the PUBLIC key bits of the named certificate as the secret:
        # the MAC verifies; a validator that honoured HMAC here would accept a packet anybody can make
        from ndn.security.signer import HmacSha256Signer
        pid = rebuild(HmacSha256Signer(sname, skey[2]))
        leaf = pid if link == 0 else leaf
    elif dev == 'schema-denied':
        # element [link] is signed by a perfectly valid certificate of the right level but of another branch
        # (issuer component of the name does not bind): cryptographically fine, denied by the schema
        if link == depth:
            return None
        other = {'admin': 'mallory', 'author': 'mallet', 'editor': 'malice'}[signer_lv]
        k2 = other_key(env, rng, h)
        i = LEVELS.index(signer_lv)
        up = LEVELS[i - 1]
        kn = f'/lvs/{signer_lv}/{other}/KEY/kx'
        issuer = h.kid['root'] if up == 'root' else h.who[up]
        n2, w2 = env.cert(kn, issuer, 1, k2[2], env.signer(h.key[up], h.names[up]))
        w.serve(n2, w.add(w2))
        pid = rebuild(env.signer(k2, n2))
        leaf = pid if link == 0 else leaf
    elif dev == 'skip-level':
        # element [link] signed by the certificate two levels up (valid, retrievable/anchor), schema says no
        if depth - link - 1 < 0:
            return None
        up2 = LEVELS[depth - link - 1]
        pid = rebuild(env.signer(h.key[up2], h.names[up2]))
        leaf = pid if link == 0 else leaf
    elif dev == 'attacker-cert':
        # the signer's certificate is replaced by one with the same name carrying the attacker's key, signed by the
        # attacker; element [link] is signed with the attacker's key: link verifies, link+1 does not
        if link == depth:
            return None
        k2 = other_key(env, rng, h)
        i = LEVELS.index(signer_lv)
        up = LEVELS[i - 1]
        pid2 = w.add(h.build_cert(signer_lv, signer=env.signer(k2, h.names[up]), pub=k2[2]))
        w.serve(sname, pid2)
        pid = rebuild(env.signer(k2, sname))
        leaf = pid if link == 0 else leaf
    elif dev == 'anchor-name-forged':
        # key locator = the anchor's name, signed by somebody else; and a forged "anchor" is retrievable under that name
        if link != depth:
            return None
        k2 = other_key(env, rng, h)
        forged = w.add(env.cert(h.key_name('root'), 'self', 1, k2[2], env.signer(k2, h.names['root']))[1])
        w.serve(h.names['root'], forged)
        pid = rebuild(env.signer(k2, h.names['root']))
        leaf = pid if link == 0 else leaf
    elif dev == 'anchor-near-locator':
        # really signed with the anchor's key, but the key locator names a sibling of the anchor certificate
        # (other version / other issuer id / one more component): not the anchor, not retrievable => no chain
        if link != depth:
            return None
        from ndn.encoding import Component
        a = h.names['root']
        near = rng.choice([a[:-1] + [Component.from_version(2)],
                           a[:-2] + [Component.from_str('other'), a[-1]],
                           a + [Component.from_str('x')]])
        pid = rebuild(env.signer(skey, near))
        leaf = pid if link == 0 else leaf
    else:
        raise AssertionError(dev)
    return w, anchor, leaf


# ------------------------------------------------------------------------------------------------
def gen_single(ctx, env):
    """one validator, one deviation at one link, validated twice (cold + warm cache)"""
    rng = ctx.rng
    n_rounds = ctx.n(2, 12)
    for rnd in range(n_rounds):
        for depth in range(0, 4):
            for link in range(0, depth + 1):
                for dev in DEVIATIONS:
                    if (dev.startswith('fullname-') and not ctx.thorough
                            and (FULLNAME_FORMS.index(dev[9:]) + 4 * rnd + 2 * depth + link) % 9 not in (0, 4)):
                        continue        # quick: 2 of the 9 full-name forms per (round, depth, link), in rotation
                    h = Hier(env, rng)
                    r = deviate(env, rng, h, depth, link, dev)
                    if r is None:
                        continue
                    w, anchor, leaf = r
                    kind = rng.choice(['lvs', 'lvs', 'lvs', 'cascade'])
                    if kind == 'lvs':
                        ops = [('lvs', 0, anchor, None), ('val', 0, leaf), ('val', 0, leaf)]
                    else:
                        ops = [('cascade', anchor, None), ('val', 0, leaf), ('val', 0, leaf)]
                    tag = f'single:{dev}:d{depth}:l{link}:{kind}:' + ''.join(k[0] for k in h.ktypes[:depth + 1])
                    impl = check_history(ctx, env, w, ops, tag)
                    ctx.case((tag, rnd), nontrivial=True, stratum=f'dev:{dev}',
                             sample={'tag': tag, 'obs': [o[:3] for o in impl]})
                    ctx.stat('verdict:' + ':'.join(str(x) for x in impl[1][1:3]))


def loop_worlds(env, rng):
    """certificate loops: (a) bare CascadeChecker (no schema), (b) LVS_LOOPY whose patterns overlap"""
    from ndn.encoding import Name
    out = []
    for variant in ('self', 'two', 'three', 'tail'):
        kr, k1, k2, k3 = [env.pick(rng) for _ in range(4)]
        w = World(env)
        rname = env.cert_name('/lvs/KEY/r', 'self', 1)
        anchor = w.add(env.cert('/lvs/KEY/r', 'self', 1, kr[2], env.signer(kr, rname))[1])
        n1 = env.cert_name('/lvs/peer/KEY/k1', 'x', 1)
        n2 = env.cert_name('/lvs/peer/KEY/k2', 'x', 1)
        n3 = env.cert_name('/lvs/peer/KEY/k3', 'x', 1)
        if variant == 'self':
            w.serve(n1, w.add(env.cert('/lvs/peer/KEY/k1', 'x', 1, k1[2], env.signer(k1, n1))[1]))
        elif variant == 'two':
            w.serve(n1, w.add(env.cert('/lvs/peer/KEY/k1', 'x', 1, k1[2], env.signer(k2, n2))[1]))
            w.serve(n2, w.add(env.cert('/lvs/peer/KEY/k2', 'x', 1, k2[2], env.signer(k1, n1))[1]))
        elif variant == 'three':
            w.serve(n1, w.add(env.cert('/lvs/peer/KEY/k1', 'x', 1, k1[2], env.signer(k2, n2))[1]))
            w.serve(n2, w.add(env.cert('/lvs/peer/KEY/k2', 'x', 1, k2[2], env.signer(k3, n3))[1]))
            w.serve(n3, w.add(env.cert('/lvs/peer/KEY/k3', 'x', 1, k3[2], env.signer(k1, n1))[1]))
        else:
            # no loop: n1 <- n2 <- anchor (control: the same shapes terminate and are accepted)
            w.serve(n1, w.add(env.cert('/lvs/peer/KEY/k1', 'x', 1, k1[2], env.signer(k2, n2))[1]))
            w.serve(n2, w.add(env.cert('/lvs/peer/KEY/k2', 'x', 1, k2[2], env.signer(kr, rname))[1]))
        leaf = w.add(env.data('/lvs/doc/d1', b'payload', env.signer(k1, n1)))
        out.append((variant, w, anchor, leaf))
    return out


def gen_loops(ctx, env):
    for rnd in range(ctx.n(2, 10)):
        for variant, w, anchor, leaf in loop_worlds(env, ctx.rng):
            for kind in ('cascade', 'lvs'):
                ops = [('cascade', anchor, None)] if kind == 'cascade' else [('lvs', 2, anchor, None)]
                ops += [('val', 0, leaf), ('val', 0, leaf)]
                tag = f'loop:{variant}:{kind}'
                impl = check_history(ctx, env, w, ops, tag)
                ctx.case((tag, rnd), nontrivial=True, stratum='loop:' + variant + ':' + ':'.join(str(x) for x in impl[1][1:2]),
                         sample={'tag': tag, 'obs': [o[:3] for o in impl]})


def gen_anchors(ctx, env):
    """constructor: every way an anchor can be wrong"""
    from ndn.security.signer import HmacSha256Signer, DigestSha256Signer
    rng = ctx.rng
    for rnd in range(ctx.n(3, 20)):
        for kt in ('ec', 'rsa', 'ed'):
            kr = env.pick(rng, kt)
            k2 = env.pick(rng)
            while k2[2] == kr[2]:
                k2 = env.pick(rng)
            rname = env.cert_name('/lvs/KEY/r', 'self', 1)
            good_signer = env.signer(kr, rname)
            cands = {
                'good': env.cert('/lvs/KEY/r', 'self', 1, kr[2], good_signer)[1],
                'signed-by-other': env.cert('/lvs/KEY/r', 'self', 1, kr[2], env.signer(k2, rname))[1],
                'forged': env.cert('/lvs/KEY/r', 'self', 1, kr[2], TweakSigner(good_signer, flip_sig=True))[1],
                'good-locator-elsewhere': env.cert('/lvs/KEY/r', 'self', 1, kr[2],
                                                   env.signer(kr, env.cert_name('/lvs/KEY/zz', 'self', 1)))[1],
                'wrong-shape-admin': env.cert('/lvs/admin/alice/KEY/ka', 'self', 1, kr[2],
                                              env.signer(kr, env.cert_name('/lvs/admin/alice/KEY/ka', 'self', 1)))[1],
                'wrong-shape-short': env.data('/lvs/KEY/r', kr[2], env.signer(kr, '/lvs/KEY/r')),
                'wrong-site': env.cert('/other/KEY/r', 'self', 1, kr[2], env.signer(kr, env.cert_name('/other/KEY/r', 'self', 1)))[1],
                'hmac': env.data(rname, b'secret-key', HmacSha256Signer(rname, b'secret-key')),
                'digest': env.data(rname, kr[2], DigestSha256Signer()),
                'unsigned': env.data(rname, kr[2], None),
                'no-content': env.data(rname, None, good_signer),
                'empty-content': env.data(rname, b'', good_signer),
                'junk-key': env.data(rname, b'\x30\x03\x02\x01\x05', good_signer),
                'sigtype-unknown': env.cert('/lvs/KEY/r', 'self', 1, kr[2],
                                            TweakSigner(good_signer, tweak_info=lambda si: setattr(si, 'signature_type', 77)))[1],
                'undecodable': ('raw', b'\x06\x03abc'),
                'not-data': ('raw', b'\x05\x03abc'),
            }
            for name, wire in cands.items():
                for kind, si in (('lvs', 0), ('lvs', 1), ('lvs', 2), ('lvs', 3), ('cascade', None)):
                    w = World(env)
                    a = wire if isinstance(wire, tuple) else w.add(wire)
                    leafk = env.pick(rng)
                    leaf = w.add(env.data('/lvs/notice/n1', b'payload', env.signer(kr, rname)))
                    ops = [('lvs', si, a, None)] if kind == 'lvs' else [('cascade', a, None)]
                    ops.append(('val', 0, leaf))
                    tag = f'anchor:{name}:{kind}{si if si is not None else ""}:{kt}'
                    impl = check_history(ctx, env, w, ops, tag)
                    ctx.case((tag, rnd), nontrivial=True, stratum=f'anchor:{name}:' + ':'.join(str(x) for x in impl[0][1:2]),
                             sample={'tag': tag, 'obs': [o[:3] for o in impl]})


def gen_roots(ctx, env):
    """constructor against schemas with 0..3 roots of trust whose patterns are disjoint / overlapping / identical /
    of different depth / constrained: a properly self-signed anchor for every candidate key name, i.e. matching all
    roots, some but not all, only a non-root rule, or nothing; then data of every root's zone validated by the
    instance (if it was built)."""
    from ndn.encoding import Name
    rng = ctx.rng
    for rnd in range(ctx.n(2, 12)):
        for fi, (si, ftag, roots, mid) in enumerate(env.root_family):
            ck = env.schemas[si]
            want_roots = {f'#root{nm}' for nm, _ in roots}
            if set(ck.root_of_trust()) != want_roots:
                ctx.disagree('schema-oracle', 'roots of trust of the compiled schema differ from the description it was '
                             'generated from', {'tag': ftag}, sorted(want_roots), sorted(ck.root_of_trust()))
            for pi, (site, prefix) in enumerate([('lvs', p) for p in ROOT_PREFIXES] + [('zzz', ['a'])]):
                kt = ('ec', 'rsa', 'ed')[(rnd + fi + pi) % 3]
                kr = env.pick(rng, kt)
                k2 = env.pick(rng)
                while k2[2] == kr[2]:
                    k2 = env.pick(rng)
                kn = '/' + '/'.join([site] + prefix + ['KEY', 'r'])
                rname = env.cert_name(kn, 'self', 1)
                hit = roots_matching(roots, site, prefix)
                got = env.match(si, rname)
                if got[0] != 1 or {bytes(m).decode() for m in got[1]} & want_roots != hit:
                    ctx.disagree('schema-oracle', 'rules matched by the anchor name differ from the description the '
                                 'schema was generated from', {'tag': ftag, 'name': kn}, sorted(hit), got)
                region = ('no-roots-defined' if not roots else 'all-roots' if hit == want_roots else
                          'some-roots' if hit else 'no-root')
                if region == 'no-root' and rnd and not ctx.thorough:
                    continue            # quick: the (large) matches-no-root stratum once, the others every round
                variants = ['good'] if (rnd + pi) % 3 else ['good', 'signed-by-other']
                own = env.signer(kr, rname)          # (an RSA signer costs a key import: built once)
                for variant in variants:
                    w = World(env)
                    signer = own if variant == 'good' else env.signer(k2, rname)
                    a = w.add(env.cert(kn, 'self', 1, kr[2], signer)[1])
                    ops = [('lvs', si, a, None)]
                    leaves = [f'/lvs/doc{nm}/x1' for nm, _ in roots] + ['/lvs/docM/x1', '/lvs/other/x1']
                    for ln in leaves:
                        ops.append(('val', 0, w.add(env.data(ln, b'payload', own))))
                    tag = f'roots:{ftag}:{"-".join(prefix) or "top"}@{site}:{variant}:{kt}'
                    impl = check_history(ctx, env, w, ops, tag)
                    ctx.case((tag, rnd), nontrivial=True,
                             stratum=f'roots:{len(roots)}:{region}:{variant}:' + ':'.join(str(x) for x in impl[0][1:2]),
                             sample={'tag': tag, 'obs': [o[:3] for o in impl]})


def gen_histories(ctx, env):
    """several instances (different anchors / schemas / storages), several packets, many orders"""
    rng = ctx.rng
    n_worlds = ctx.n(6, 30)
    max_orders = ctx.n(40, 720)
    for wi in range(n_worlds):
        # two hierarchies with the same names below the root but different root keys and root names r / q;
        h1 = Hier(env, rng, rid='r')
        h2 = Hier(env, rng, rid='q')
        depth = rng.choice([1, 2, 2, 3])
        w, a1, chain = base_world(env, h1, depth)
        a2 = w.add(h2.build_cert('root'))
        pk = [chain[0]]
        # a second packet sharing the certificates (signed one level up), and one that only validates under anchor 2
        if depth >= 1:
            lv = LEVELS[depth - 1]
            pk.append(w.add(env.data(h1.leaf_name(depth - 1), b'second', env.signer(h1.key[lv], h1.names[lv]))))
        pk.append(w.add(env.data('/lvs/notice/n2', b'third', env.signer(h2.key['root'], h2.names['root']))))
        if len(chain) > 1 and rng.random() < 0.5:
            pk[1] = chain[1]        # a certificate validated as a top-level packet (before/after it was cached)
        mode = rng.choice(['two-anchors', 'two-anchors', 'two-schemas', 'explicit-own', 'explicit-shared', 'three'])
        if mode == 'two-anchors':
            pre = [('lvs', 0, a1, None), ('lvs', 0, a2, None)]
        elif mode == 'two-schemas':
            pre = [('lvs', 0, a1, None), ('lvs', 1, a1, None)]
        elif mode == 'explicit-own':
            pre = [('storage',), ('storage',), ('lvs', 0, a1, 0), ('lvs', 0, a2, 1)]
        elif mode == 'explicit-shared':
            pre = [('storage',), ('lvs', 0, a1, 0), ('lvs', 0, a2, 0)]
        else:
            pre = [('lvs', 0, a1, None), ('cascade', a2, None), ('lvs', 1, a1, None)]
        ninst = sum(1 for o in pre if o[0] != 'storage')
        vals = [('val', i, p) for i in range(ninst) for p in pk]
        if ninst * len(pk) > 6:
            vals = rng.sample(vals, 6)
        orders = list(itertools.permutations(vals))
        if len(orders) > max_orders:
            orders = rng.sample(orders, max_orders)
        for oi, order in enumerate(orders):
            ops = pre + list(order)
            tag = f'history:{mode}:d{depth}'
            impl = check_history(ctx, env, w, ops, tag)
            ctx.case((tag, wi, oi), nontrivial=True, stratum=f'history:{mode}',
                     sample={'tag': tag, 'obs': [o[:3] for o in impl]})
        # the DESIGN 9a witness, literally: reject under anchor 2, accept under anchor 1, must still reject under 2
        ops = [('lvs', 0, a1, None), ('lvs', 0, a2, None), ('val', 1, pk[0]), ('val', 0, pk[0]), ('val', 1, pk[0])]
        check_history(ctx, env, w, ops, 'history:9a-witness')
        ctx.case(('9a', wi), nontrivial=True, stratum='history:9a-witness')


def gen_same_key(ctx, env):
    """ONE instance, several packets signed by ONE key whose KeyLocators name DIFFERENT certificates of that key
    (another version / issuer id).  Every certificate on the way has to be retrievable and valid on its own: a
    verdict may not lean on another certificate of the same key that the instance saw before."""
    rng = ctx.rng
    for wi in range(ctx.n(8, 60)):
        h = Hier(env, rng)
        depth = rng.choice([1, 2, 2, 3])
        w, anchor, chain = base_world(env, h, depth)
        lv = LEVELS[depth]
        up = LEVELS[depth - 1]
        alt = rng.choice(['version', 'version', 'issuer'])
        iss = h.issuer_comp(lv) if alt == 'version' else 'zed'
        ver = 2 if alt == 'version' else 1
        n2 = env.cert_name(h.key_name(lv), iss, ver)
        p1 = chain[0]
        p2 = w.add(env.data(h.leaf_name(depth), b'other', env.signer(h.key[lv], n2)))
        fate = rng.choice(['missing', 'missing', 'nack', 'neterr', 'forged', 'wrong-signer', 'valid'])
        upsigner = env.signer(h.key[up], h.names[up])
        if fate == 'nack':
            w.respond(n2, 'nack')
        elif fate == 'neterr':
            w.respond(n2, 'fail')
        elif fate == 'forged':
            _, c2 = env.cert(h.key_name(lv), iss, ver, h.key[lv][2], TweakSigner(upsigner, flip_sig=True))
            w.serve(n2, w.add(c2))
        elif fate == 'wrong-signer':
            ok = other_key(env, rng, h, h.key[up][0])
            _, c2 = env.cert(h.key_name(lv), iss, ver, h.key[lv][2], env.signer(ok, h.names[up]))
            w.serve(n2, w.add(c2))
        elif fate == 'valid':
            _, c2 = env.cert(h.key_name(lv), iss, ver, h.key[lv][2], upsigner)
            w.serve(n2, w.add(c2))
        for kind in ('lvs', 'cascade'):
            pre = [('lvs', 0, anchor, None)] if kind == 'lvs' else [('cascade', anchor, None)]
            for oi, seq in enumerate(([p1, p2, p1], [p2, p1, p2], [p1, p1, p2, p2], [p2, p2, p1])):
                ops = pre + [('val', 0, p) for p in seq]
                tag = f'same-key:{kind}:{alt}:{fate}:d{depth}'
                impl = check_history(ctx, env, w, ops, tag)
                ctx.case((tag, wi, oi), nontrivial=True, stratum=f'same-key:{kind}:{fate}',
                         sample={'tag': tag, 'obs': [o[:3] for o in impl]})


# ------------------------------------------------------------------------------------------------
# Validations that OVERLAP IN TIME on one instance.  The face holds every answer back until the schedule says
# "deliver <name>" (the real NDNApp then satisfies every pending Interest of that name at once) or "expire" (the
# Interests nobody answers time out); between two events the loop runs to quiescence, so the schedule IS the
# linearisation.  Model: Model/ValidatorConc.v (request 4); theorems C14_concurrent_iff / C14_schedule_independent.
def gen_fullnames(ctx, env):
    """KeyLocators that are FULL names, at every link at once.  Per scenario a vector of forms (one per element of the
    chain) -- all right, right below a plain top, right/plain mixtures, a mixture with ONE wrong digest somewhere, all wrong -- with the anchor
    retrievable or not; then one instance validates, in a random order and a second time in another order (cold / warm
    key storage: a key cached under the plain name or under one full name must not answer for another full name): the
    leaf, four more packets of the leaf's signer whose locators are plain / right / two wrong digests, and every
    certificate of the chain as a packet of its own."""
    rng = ctx.rng
    for rnd in range(ctx.n(1, 8)):
        for depth in range(0, 4):
            n = depth + 1
            top = lambda: 'plain' if rng.random() < 0.7 else 'right'      # noqa  (form of the element the anchor signs)
            vectors = [('all-right', ['right'] * n, False), ('all-right', ['right'] * n, True),
                       ('right-below-plain-top', ['right'] * depth + ['plain'], rng.random() < 0.5),
                       ('right-plain', [rng.choice(['plain', 'right']) for _ in range(depth)] + [top()], rng.random() < 0.5)]
            for _ in range(ctx.n(2, 5)):
                v = [rng.choice(['plain', 'right', 'right']) for _ in range(depth)] + [top()]
                k = rng.randrange(n)
                v[k] = rng.choice(FULLNAME_WRONG)
                vectors.append((f'one-wrong:{v[k]}', v, rng.random() < 0.5))
            vectors.append(('all-wrong', [rng.choice(FULLNAME_WRONG) for _ in range(n)], True))
            for shape, forms, served in vectors:
                h = Hier(env, rng)
                w, anchor, leaf, elems, mk_loc = fullname_world(env, rng, h, depth, forms, served)
                lv = LEVELS[depth]
                above = w.pkts[elems[1]] if depth else w.pkts[anchor]
                pk = [leaf] + [elems[e] for e in range(1, depth + 1)]
                for i, f in enumerate(['plain', 'right'] + rng.sample(FULLNAME_WRONG, 2)):
                    pk.append(w.add(env.data(alt_leaf(h, depth, 2 + i), b'variant ' + f.encode(),
                                             env.signer(h.key[lv], mk_loc(f, lv, above)))))
                kind = 'cascade' if (rnd + depth + len(shape)) % 3 == 0 else 'lvs'
                ops = [('lvs', 0, anchor, None) if kind == 'lvs' else ('cascade', anchor, None)]
                for _ in range(2):
                    rng.shuffle(pk)
                    ops += [('val', 0, p) for p in pk]
                tag = (f'fullname:{shape}:d{depth}:{kind}:anchor-{"served" if served else "configured-only"}:'
                       + ','.join(forms))
                impl = check_history(ctx, env, w, ops, tag)
                ctx.case((tag, rnd), nontrivial=True, stratum=f'fullname:{shape}',
                         sample={'tag': tag, 'obs': [o[:3] for o in impl]})
                for f in forms:
                    ctx.stat('fullname-locator:' + f)
                ctx.stat('fullname-accepted:%d' % sum(1 for o in impl if o[0] == 'val' and o[1] == 'ok' and o[2] == 1))


MAX_EVENTS = 26


class ConcFace:
    running = True

    def __init__(self, world, loop):
        self.world, self.loop = world, loop
        self.app = None
        self.tid_of = {}        # asyncio task -> thread id (a validation and everything it awaits is ONE task)
        self.sent = {}          # tid -> names of the certificate Interests it expressed
        self.pending = []       # [tid, name bytes] in the order expressed; one outstanding Interest per thread
        self.flag_errors = []

    def send(self, wire):
        from ndn.encoding import parse_interest, Name
        from ndn.types import NetworkError
        name, param, _, _ = parse_interest(wire)
        tid = self.tid_of.get(asyncio.current_task(), -1)
        nb = Name.to_bytes(name)
        self.sent.setdefault(tid, []).append([bytes(c) for c in name])
        if not param.must_be_fresh or param.can_be_prefix:
            self.flag_errors.append((bool(param.must_be_fresh), bool(param.can_be_prefix)))
        r = self.world.lookup(nb)
        if r is not None and r[0] == 'fail':
            raise NetworkError('injected')
        self.pending = [e for e in self.pending if e[0] != tid] + [[tid, nb]]


def run_conc_impl(env, world, ctors, threads, choose=None, script=None, own_storage=True, anchor_mem=None):
    """The instances of [ctors] on ONE NDNApp; the validations threads = [(instance, pid)] are started in that order,
    answers are delivered as the schedule says.  choose(step, enabled events) -> index, or script = the exact list
    of events ('start', instance, pid) | ('deliver', name bytes) | ('expire',).  anchor_mem = (form, how): the trust
    anchors are handed over in buffers of the caller (how = 'same-buffer': ONE buffer, each anchor loaded in turn)
    which it overwrites before the first validation starts.  Returns the observations."""
    from ndn.app import NDNApp
    from ndn.encoding import Name, TypeNumber
    from ndn.app_support.light_versec import lvs_validator
    from ndn.security.validator.cascade_validator import CascadeChecker, MemoryKeyStorage
    loop = vtloop.new_loop()
    face = ConcFace(world, loop)
    app = NDNApp(face=face, keychain=object())
    face.app = app
    out = {'new': ('ok',), 'events': [], 'widths': [], 'queues': [], 'threads': [], 'caches': None,
           'anchor_mem': list(anchor_mem) if anchor_mem else None}
    storages = [MemoryKeyStorage() for _ in ctors] if own_storage else None
    results, tasks, started, vs = {}, [], [], []
    closing = False
    try:
        try:
            cm = CallerMemory(world, {'anchor': anchor_mem[0]}) if anchor_mem else None
            for i, ctor in enumerate(ctors):
                extra = [storages[i]] if own_storage else []
                if cm is None:
                    wire = world.pkts[ctor[-2]]
                else:
                    bid = 'A0' if anchor_mem[1] == 'same-buffer' else 'A%d' % i
                    cm.load(bid, 'anchor', ctor[-2])
                    wire = cm.given(bid)[0]
                if ctor[0] == 'lvs':
                    vs.append(lvs_validator(env.schemas[ctor[1]], app, wire, *extra))
                else:
                    vs.append(CascadeChecker(app, wire, *extra))
            if cm is not None:
                for bid in list(cm.bufs):
                    cm.scribble(bid, 'zero' if anchor_mem[1] == 'same-buffer' else anchor_mem[1])
        except Exception as e:   # noqa
            out['new'] = ('err', exc_code(e), type(e).__name__)
            return out

        async def runner(tid, inst, pid):
            p = world.parse(pid)
            try:
                r = await vs[inst](p['fname'], p['ptrs'])
                results[tid] = ('ok', 1 if r else 0)
            except Exception as e:   # noqa  (an exception is an observation, not a harness failure)
                results[tid] = ('err', exc_code(e), type(e).__name__)
            except asyncio.CancelledError as e:
                if not closing:         # not our clean-up: the validator awaited something that had been cancelled
                    results[tid] = ('err', exc_code(e), type(e).__name__)
                raise

        for step in range(len(script) if script is not None else MAX_EVENTS):
            if script is not None:
                ev = tuple(script[step])
            else:
                enabled = []
                if len(tasks) < len(threads):
                    enabled.append(('start',) + tuple(threads[len(tasks)]))
                names = []
                for _, nb in face.pending:
                    if nb not in names:
                        names.append(nb)
                live = [nb for nb in names if world.lookup(nb) is not None]
                enabled += [('deliver', nb) for nb in live]
                if names and not live:
                    enabled.append(('expire',))      # only Interests that nobody will ever answer are left
                if not enabled:
                    break
                out['widths'].append(len(enabled))
                ev = enabled[choose(step, enabled)]
            if ev[0] == 'start':
                if ev[1] < len(vs):
                    t = loop.create_task(runner(len(tasks), ev[1], ev[2]))
                    face.tid_of[t] = len(tasks)
                    tasks.append(t)
                    started.append((ev[1], ev[2]))
                    loop.settle(200)
            elif ev[0] == 'deliver':
                nb = bytes(ev[1])
                r = world.lookup(nb)
                if r is not None and r[0] in ('data', 'nack'):
                    face.pending = [e for e in face.pending if e[1] != nb]
                    if r[0] == 'data':
                        loop.create_task(app._receive(TypeNumber.DATA, world.pkts[r[1]]))
                    else:
                        app._on_nack(Name.from_bytes(nb), 150)
                    loop.settle(200)
            else:
                face.pending = [e for e in face.pending if world.lookup(e[1]) is not None]
                loop.advance_to(loop.time() + 4.5)
            out['events'].append(ev)
            out['queues'].append([[tid, [bytes(c) for c in Name.from_bytes(nb)]] for tid, nb in face.pending])
        waiting = {tid: nb for tid, nb in face.pending}
        for tid in range(len(tasks)):
            if tid in results:
                st = results[tid]
            elif tid in waiting:
                st = ('wait', [bytes(c) for c in Name.from_bytes(waiting[tid])])
            else:
                st = ('stuck',)
            out['threads'].append((started[tid][0], started[tid][1], st, face.sent.get(tid, [])))
        if own_storage and all(isinstance(getattr(x, '_cache', None), dict) for x in storages):
            out['caches'] = [sorted((tuple(bytes(c) for c in Name.from_bytes(k)), bytes(kb))
                                    for k, kb in x._cache.items()) for x in storages]
        out['flag_errors'] = face.flag_errors
        out['stray'] = face.sent.get(-1, [])
    finally:
        closing = True
        for t in asyncio.all_tasks(loop):
            t.cancel()
        loop.settle()
        loop.close()
        asyncio.set_event_loop(None)
    return out


def norm_conc_model(m):
    """model answer of request 4 -> (queues, threads, cache) in the shape of run_conc_impl (thread ids local)"""
    queues = [[[q[0], [bytes(c) for c in (q[1] or [])]] for q in qs] for qs in m[1]]
    threads = []
    for pid, st, sent in m[2][0]:
        if st[0] == 0:
            r = st[1]
            o = ('ok', r[1]) if r[0] == 1 else ('err', r[1])
        elif st[0] == 1:
            o = ('wait', [bytes(c) for c in st[1]])
        else:
            o = ('stuck',)
        threads.append((pid, o, [[bytes(c) for c in n] for n in sent]))
    cache = sorted((tuple(bytes(c) for c in n), bytes(k)) for n, k in m[2][2])
    return queues, threads, cache


class ConcScenario:
    """world + instances + the packets validated at overlapping times; tables and chain verdicts computed once.
    The model (one instance, one key storage: Model/ValidatorConc.v) is run once per instance on that instance's
    starts and on every delivery / expiry; instances share nothing but the NDNApp."""
    _uid = [0]

    def __init__(self, ctx, env, world, ctors, threads, tag):
        self.ctx, self.env, self.world, self.tag = ctx, env, world, tag
        self.ctors = [tuple(c) for c in ctors]
        self.threads = [tuple(t) for t in threads]
        self.schema_ids = sorted({c[1] for c in self.ctors if c[0] == 'lvs'})
        self.W, self.S = world.tables(sorted({c[-2] for c in self.ctors}), self.schema_ids)
        self.ctor_model = model_ops(world, self.ctors, self.schema_ids)
        self.trust, self.cfgid = [], []
        for c in self.ctors:
            a = world.parse(c[-2])
            self.trust.append([a['name'], a['content'][0] if a['content'] else b'',
                               [] if c[0] == 'cascade' else [self.S[self.schema_ids.index(c[1])][3]]])
            self.cfgid.append((c[0], c[1] if c[0] == 'lvs' else None, world.pkts[c[-2]]))
        self.chain = {}
        self.verdicts = {}          # (trust configuration, pid) -> accepted?, over every schedule of this scenario
        self.seen = set()
        ConcScenario._uid[0] += 1
        self.uid = ConcScenario._uid[0]

    def site(self, inst):
        return 'lvs_validator' if self.ctors[inst][0] == 'lvs' else 'CascadeChecker.validate'

    def has_chain(self, inst, pid):
        k = (self.cfgid[inst], pid)
        if k not in self.chain:
            ch = self.ctx.call([2, 64, self.W, self.trust[inst], pid])
            self.chain[k] = None if ch == [] else bool(ch[0])
        return self.chain[k]

    def case(self, impl):
        return {'kind': 'concurrent', 'tag': self.tag, 'ctors': [list(c) for c in self.ctors],
                'threads': [list(t) for t in self.threads],
                'events': [list(e) for e in impl['events']], 'pkts': self.world.pkts,
                'store': {k.hex(): list(v) for k, v in self.world.store.items()},
                'anchor_mem': impl.get('anchor_mem'),
                'observed': [(inst, pid, st[:2]) for inst, pid, st, _ in impl['threads']]}

    def correspondence(self, impl, case):
        from ndn.encoding import Name
        ctx = self.ctx
        for inst in range(len(self.ctors)):
            local = [tid for tid, th in enumerate(impl['threads']) if th[0] == inst]
            evs, keep = [], []
            for g, ev in enumerate(impl['events']):
                if ev[0] == 'start':
                    if ev[1] != inst:
                        continue
                    evs.append([0, ev[2]])
                elif ev[0] == 'deliver':
                    evs.append([2, [bytes(c) for c in Name.from_bytes(bytes(ev[1]))]])
                else:
                    evs.append([3])
                keep.append(g)
            m = ctx.call([4, self.W, self.S, self.ctor_model[inst], evs])
            if is_err(m) or m[0] != 1:
                ctx.disagree('concurrent', 'model rejected the request / the constructor', case, m, impl['new'])
                continue
            mq, mt, mc = norm_conc_model(m)
            it = [(impl['threads'][tid][1], impl['threads'][tid][2][:2], impl['threads'][tid][3]) for tid in local]
            iq = [[[local.index(tid), n] for tid, n in impl['queues'][g] if tid in local] for g in keep]
            if mt != it:
                k = next((i for i, (x, y) in enumerate(zip(mt, it)) if x != y), None)
                ctx.disagree('concurrent-validate', f'instance {inst}, its validation #{k}: verdict / exception class / '
                             'Interests sent differ', case, mt, it)
            elif mq != iq:
                k = next((i for i, (x, y) in enumerate(zip(mq, iq)) if x != y), None)
                ctx.disagree('concurrent-pending', f'instance {inst}: outstanding certificate Interests after its event '
                             f'#{k} differ', case, mq, iq)
            elif impl['caches'] is not None and mc != impl['caches'][inst]:
                ctx.disagree('concurrent-storage', f'instance {inst}: key storage after the schedule differs', case,
                             mc, impl['caches'][inst])

    def check(self, impl, complete):
        """correspondence with the model on the schedule that was run, then the specification oracle"""
        ctx = self.ctx
        case = self.case(impl)
        if impl['new'][0] != 'ok':
            ctx.disagree('constructor', 'a validator with a good anchor could not be built', case, ('new', 'ok'), impl['new'])
            return
        self.correspondence(impl, case)
        if impl['flag_errors']:
            ctx.disagree('cert-interest-flags', 'certificate Interest is not (MustBeFresh, not CanBePrefix)', case,
                         [1, 0], impl['flag_errors'][0])
        if impl['stray']:
            ctx.disagree('concurrent', 'an Interest was expressed outside the validations', case, [], impl['stray'])
        # ---- direct oracle -----------------------------------------------------------------------------
        for tid, (inst, pid, st, sent) in enumerate(impl['threads']):
            chain = self.has_chain(inst, pid)
            done = st[0] in ('ok', 'err')
            accepted = st[0] == 'ok' and st[1] == 1
            site = self.site(inst)
            if accepted and chain is not True:
                ctx.violation(site, 'accepts-without-chain',
                              'packet accepted (while other validations were in flight) although no valid chain to the anchor exists', case)
            if chain is True and done and not accepted:
                ctx.violation(site, 'rejects-with-chain',
                              f'validation #{tid} of a packet with a valid, retrievable chain was not accepted ({st[0]} {st[1]}) '
                              'while other validations were in flight', case)
            if not done:
                if chain is None:
                    ctx.violation('CascadeChecker.validate', 'no-verdict-certificate-loop',
                                  'certificates that name each other as signers: the validator keeps fetching and never answers', case)
                elif complete:
                    ctx.violation(site, 'no-verdict-finite-chain',
                                  f'validation #{tid}: every certificate Interest was answered or timed out, still no verdict', case)
            elif st[0] == 'err':
                ctx.stat(f'verdict-by-exception:{st[2]}')
            if done:
                k = (self.cfgid[inst], pid)
                if k in self.verdicts and self.verdicts[k] != accepted:
                    ctx.violation(site, 'verdict-depends-on-interleaving',
                                  'same schema, anchor, packet and retrievable certificates: the verdict differs with what else '
                                  'is in flight / the order in which certificates arrive', case)
                self.verdicts.setdefault(k, accepted)

    def run_one(self, choose, own_storage=True, anchor_mem=None):
        impl = run_conc_impl(self.env, self.world, self.ctors, self.threads, choose=choose, own_storage=own_storage,
                             anchor_mem=anchor_mem)
        key = tuple(tuple(e) for e in impl['events']) + ((tuple(anchor_mem),) if anchor_mem else ())
        if anchor_mem:
            self.ctx.stat(f'conc-anchor-buffer-rewritten:{anchor_mem[1]}')
        if key in self.seen:
            return impl, False
        self.seen.add(key)
        complete = len(impl['events']) < MAX_EVENTS
        self.check(impl, complete)
        n_overlap = max([len(q) for q in impl['queues']] + [0])
        self.ctx.case((self.tag, self.uid, key), nontrivial=n_overlap >= 1, stratum=f'conc:{self.tag.split(":")[1]}',
                      sample={'tag': self.tag, 'events': [e[0] for e in impl['events']],
                              'obs': [(inst, pid, st[:2]) for inst, pid, st, _ in impl['threads']]})
        self.ctx.stat(f'conc-max-outstanding:{min(n_overlap, 4)}')
        shared = max([max([sum(1 for x in q if x[1] == y[1]) for y in q] + [0]) for q in impl['queues']] + [0])
        self.ctx.stat(f'conc-max-waiting-for-one-certificate:{min(shared, 4)}')
        return impl, True

    def explore(self, rng, n_random, dfs_limit):
        """schedules: one after another; the choice tree in depth-first order (first branch = everything started
        before anything arrives) up to dfs_limit; n_random random ones"""
        self.run_one(lambda step, en: 1 if en[0][0] == 'start' and len(en) > 1 else 0, own_storage=False)
        prefix, n = [], 0
        while n < dfs_limit:
            impl, _ = self.run_one(lambda step, en: prefix[step] if step < len(prefix) else 0)
            n += 1
            widths = impl['widths']
            choices = prefix[:len(widths)] + [0] * (len(widths) - len(prefix))
            i = len(widths) - 1
            while i >= 0 and choices[i] + 1 >= widths[i]:
                i -= 1
            if i < 0:
                self.ctx.stat('conc-choice-tree-exhausted')
                break
            prefix = choices[:i] + [choices[i] + 1]
        for _ in range(n_random):
            r = random.Random(rng.getrandbits(32))
            # every other one: the anchors sit in buffers of the caller which it overwrites after the constructions
            am = (r.choice(FORMS_MUTABLE), r.choice(['zero', 'invert', 'shift', 'same-buffer'])) if _ % 2 == 0 else None
            self.run_one(lambda step, en: r.randrange(len(en)), own_storage=r.random() < 0.8, anchor_mem=am)


def alt_leaf(h, depth, k):
    """another packet name of the zone that the level-[depth] key may sign"""
    return ['/lvs/notice/n%d', '/lvs/memo/alice/m%d', '/lvs/article/bob/p%d', '/lvs/note/carol/t%d'][depth] % k


def conc_pool(env, rng, h, depth):
    """the chain of [h] down to [depth] and packets whose chains share its certificates: same signer, the signer's
    parent, a sibling certificate issued by the same parent, the signer's certificate itself as a packet; and
    packets that must be refused whatever else is in flight"""
    w, anchor, chain = base_world(env, h, depth)
    lv, up = LEVELS[depth], LEVELS[depth - 1]
    signer = env.signer(h.key[lv], h.names[lv])
    upsigner = env.signer(h.key[up], h.names[up])
    good, bad = {}, {}
    good['leaf'] = chain[0]
    good['same-signer'] = w.add(env.data(alt_leaf(h, depth, 2), b'second', signer))
    good['same-signer-3'] = w.add(env.data(alt_leaf(h, depth, 3), b'third', signer))
    good['parent-signer'] = w.add(env.data(h.leaf_name(depth - 1), b'upper', upsigner))
    good['cert-as-packet'] = chain[1]
    who = {'admin': 'dave', 'author': 'erin', 'editor': 'fred'}[lv]
    k2 = other_key(env, rng, h)
    issuer = h.kid['root'] if up == 'root' else h.who[up]
    n2, c2 = env.cert(f'/lvs/{lv}/{who}/KEY/ks', issuer, 1, k2[2], upsigner)
    w.serve(n2, w.add(c2))
    sib = env.signer(k2, n2)
    good['sibling-signer'] = w.add(env.data({1: '/lvs/memo/dave/m1', 2: '/lvs/article/erin/p1',
                                             3: '/lvs/note/fred/t1'}[depth], b'sibling', sib))
    bad['forged'] = w.add(env.data(alt_leaf(h, depth, 4), b'forged', TweakSigner(signer, flip_sig=True)))
    k3 = other_key(env, rng, h, h.key[lv][0])
    bad['wrong-key'] = w.add(env.data(alt_leaf(h, depth, 5), b'wrong key', env.signer(k3, h.names[lv])))
    bad['schema-denied'] = w.add(env.data(alt_leaf(h, depth, 6), b'denied', sib))
    for i, fate in enumerate(('silent', 'nack', 'neterr')):
        nm = env.cert_name(h.key_name(lv), h.issuer_comp(lv), 7 + i)
        if fate != 'silent':
            w.respond(nm, 'nack' if fate == 'nack' else 'fail')
        bad['cert-' + fate] = w.add(env.data(alt_leaf(h, depth, 7 + i), b'no cert', env.signer(h.key[lv], nm)))
    return w, anchor, good, bad


CONC_SHAPES = [
    # threads (names of the pool); the first two always meet at an uncached certificate
    ('same-signer', ['leaf', 'same-signer']),
    ('same-signer-x3', ['leaf', 'same-signer', 'same-signer-3']),
    ('same-packet-twice', ['leaf', 'leaf']),
    ('meets-at-parent', ['leaf', 'sibling-signer']),
    ('signer-and-parent', ['leaf', 'parent-signer']),
    ('parent-first', ['parent-signer', 'leaf', 'sibling-signer']),
    ('cert-as-packet', ['leaf', 'cert-as-packet']),
    ('cert-first', ['cert-as-packet', 'same-signer', 'leaf']),
    ('with-forged', ['leaf', 'forged', 'same-signer']),
    ('with-wrong-key', ['wrong-key', 'leaf']),
    ('with-schema-denied', ['schema-denied', 'leaf', 'sibling-signer']),
    ('with-silent-cert', ['cert-silent', 'leaf', 'same-signer']),
    ('with-nack-cert', ['leaf', 'cert-nack', 'same-signer']),
    ('with-neterr-cert', ['cert-neterr', 'leaf', 'same-signer']),
    ('all-bad', ['forged', 'cert-silent', 'cert-nack']),
    ('family', ['leaf', 'sibling-signer', 'parent-signer', 'same-signer']),
]
CONC_DEVIATIONS = ['forged-sig', 'tampered', 'missing', 'nack', 'neterr', 'subst-key-same', 'subst-key-empty',
                   'attacker-cert', 'no-siginfo', 'sigtype-hmac', 'schema-denied',
                   'fullname-right', 'fullname-flipped', 'fullname-superseded', 'fullname-zeros']


def gen_concurrent(ctx, env):
    """ONE instance, 2-4 validations in flight at the same time whose chains share certificates that the instance
    has not cached yet, over every interleaving of "validation k starts" / "the answer for certificate c arrives" /
    "the unanswered Interests time out" (thorough: the whole choice tree; quick: maximal overlap, no overlap, the
    first branches of the tree and random schedules)."""
    rng = ctx.rng
    n_random, dfs_limit = ctx.n(3, 10), ctx.n(3, 150)
    # (a) intact hierarchy, every sharing shape x chain length x validator kind
    for rnd in range(ctx.n(1, 2)):
        for si, (shape, names) in enumerate(CONC_SHAPES):
            for depth in (1, 2, 3):
                if not ctx.thorough and (si + depth + rnd) % 3 and shape not in ('same-signer', 'meets-at-parent'):
                    continue
                h = Hier(env, rng)
                w, anchor, good, bad = conc_pool(env, rng, h, depth)
                pool = dict(good, **bad)
                kind = 'cascade' if (si + depth + rnd) % 4 == 0 else 'lvs'
                ctor = ('lvs', 0, anchor, None) if kind == 'lvs' else ('cascade', anchor, None)
                tag = f'conc:{shape}:d{depth}:{kind}:' + ''.join(k[0] for k in h.ktypes[:depth + 1])
                ConcScenario(ctx, env, w, [ctor], [(0, pool[n]) for n in names], tag).explore(rng, n_random, dfs_limit)
    # (b) one deviation somewhere above two packets of one signer: both must be refused, in every interleaving
    for rnd in range(ctx.n(1, 2)):
        for di, dev in enumerate(CONC_DEVIATIONS):
            for depth in (2, 3):
                for link in range(1, depth + 1):
                    if not ctx.thorough and (di + depth + link + rnd) % 4:
                        continue
                    h = Hier(env, rng)
                    r = deviate(env, rng, h, depth, link, dev)
                    if r is None:
                        continue
                    w, anchor, leaf = r
                    lv = LEVELS[depth]
                    second = w.add(env.data(alt_leaf(h, depth, 2), b'second', env.signer(h.key[lv], h.names[lv])))
                    tag = f'conc:deviation-{dev}:d{depth}:l{link}'
                    ConcScenario(ctx, env, w, [('lvs', 0, anchor, None)], [(0, leaf), (0, second), (0, leaf)], tag
                                 ).explore(rng, ctx.n(2, 6), ctx.n(2, 60))
    # (d) several instances on one NDNApp, validating at the same time: one Data answers the Interests of all of
    #     them; same configuration (must agree), other anchor (must refuse what the first accepts), other schema / none
    for rnd in range(ctx.n(1, 3)):
        for depth in (1, 2, 3):
            if not ctx.thorough and depth != 1 + (rnd + ctx.seed) % 3 and depth != 2:
                continue
            h = Hier(env, rng, rid='r')
            h2 = Hier(env, rng, rid='q')
            w, a1, good, bad = conc_pool(env, rng, h, depth)
            a2 = w.add(h2.build_cert('root'))
            n2 = w.add(env.data('/lvs/notice/n2', b'other root', env.signer(h2.key['root'], h2.names['root'])))
            for mode, ctors, threads in (
                    ('twins', [('lvs', 0, a1, None), ('lvs', 0, a1, None)],
                     [(0, good['leaf']), (1, good['leaf']), (0, good['same-signer']), (1, good['sibling-signer'])]),
                    ('two-anchors', [('lvs', 0, a1, None), ('lvs', 0, a2, None)],
                     [(1, good['leaf']), (0, good['leaf']), (1, n2), (0, good['same-signer'])]),
                    ('schema-strict-none', [('lvs', 0, a1, None), ('cascade', a1, None), ('lvs', 1, a1, None)],
                     [(0, good['leaf']), (2, good['leaf']), (1, bad['schema-denied']), (0, bad['schema-denied'])])):
                tag = f'conc:instances-{mode}:d{depth}'
                ConcScenario(ctx, env, w, ctors, threads, tag).explore(rng, ctx.n(2, 10), ctx.n(3, 120))
    # (c) certificate loops next to each other (the known no-verdict finding must not spread to anything else)
    for rnd in range(ctx.n(1, 3)):
        for variant, w, anchor, leaf in loop_worlds(env, rng):
            for kind in ('cascade', 'lvs'):
                ctor = ('cascade', anchor, None) if kind == 'cascade' else ('lvs', 2, anchor, None)
                tag = f'conc:loop-{variant}:{kind}'
                ConcScenario(ctx, env, w, [ctor], [(0, leaf), (0, leaf)], tag).explore(rng, ctx.n(1, 6), ctx.n(1, 12))


# ------------------------------------------------------------------------------------------------
# The caller's buffers: what is handed over is a bytes / bytearray / memoryview (whole, or a window of a larger
# store), and the caller goes on using its memory afterwards.
BUF_REWRITES = ['zero', 'invert', 'shift', 'other-anchor']
BUF_KINDS = [('lvs', 0), ('cascade', None), ('lvs', 1)]


def buffer_world(env, rng):
    """two hierarchies with the same names below the root, the same key types level by level (so the two anchors
    have the same layout and usually the same length) and different keys; the certificates of the first are
    retrievable.  Packets: the leaf (chain of [depth] certificates to anchor 1), a notice signed by anchor 1 itself,
    a notice signed by anchor 2, the certificate next to the leaf as a packet."""
    kts = [rng.choice(['ec', 'rsa', 'ed', 'ed', 'ec']) for _ in range(4)]
    h1 = Hier(env, rng, ktypes=kts, rid='r')
    for _ in range(20):
        h2 = Hier(env, rng, ktypes=kts, rid='q')
        if h2.key['root'][2] != h1.key['root'][2]:
            break
    depth = rng.choice([1, 2, 2, 3])
    w, a1, chain = base_world(env, h1, depth)
    a2 = w.add(h2.build_cert('root'))
    for _ in range(6):      # ECDSA signatures are 70..72 bytes: try for anchors of ONE length (whole-buffer reload)
        if len(w.pkts[a2]) == len(w.pkts[a1]):
            break
        w.pkts.pop()
        a2 = w.add(h2.build_cert('root'))
    pk = {'leaf': chain[0],
          'by-anchor-1': w.add(env.data('/lvs/notice/n1', b'first', env.signer(h1.key['root'], h1.names['root']))),
          'by-anchor-2': w.add(env.data('/lvs/notice/n2', b'second', env.signer(h2.key['root'], h2.names['root']))),
          'cert': chain[1]}
    return w, a1, a2, pk, depth, kts


def buffer_histories(rng, a1, a2, pk, thorough):
    """(shape, rewrite, ops): the caller rewrites its buffers at every kind of later point of the history"""
    out = []
    L, N1, N2, C = pk['leaf'], pk['by-anchor-1'], pk['by-anchor-2'], pk['cert']

    def new(kind, buf, sarg=None):
        return ('lvs', kind[1], ('buf', buf), sarg) if kind[0] == 'lvs' else ('cascade', ('buf', buf), sarg)

    def rewrite(buf, how):
        return ('load', buf, a2) if how == 'other-anchor' else ('scribble', buf, how)
    for how in BUF_REWRITES:
        kind = rng.choice(BUF_KINDS)
        out.append(('after-construction', how,
                    [('load', 'A0', a1), new(kind, 'A0'), rewrite('A0', how),
                     ('val', 0, L), ('val', 0, N1), ('val', 0, N2), ('val', 0, L)]))
        kind = rng.choice(BUF_KINDS)
        out.append(('between-validations', how,
                    [('load', 'A0', a1), new(kind, 'A0'), ('val', 0, L), ('val', 0, N1), ('val', 0, N2),
                     rewrite('A0', how), ('val', 0, L), ('val', 0, N1), ('val', 0, N2), ('val', 0, C)]))
    for k2 in (BUF_KINDS if thorough else [rng.choice(BUF_KINDS)]):
        kind = rng.choice(BUF_KINDS)
        # the application loads the anchor of its SECOND validator into the buffer the first one was built from
        out.append(('second-instance-same-buffer', 'other-anchor',
                    [('load', 'A0', a1), new(kind, 'A0'), ('val', 0, N1), ('load', 'A0', a2), new(k2, 'A0'),
                     ('val', 0, N1), ('val', 0, N2), ('val', 0, L), ('val', 1, N1), ('val', 1, N2), ('val', 1, L)]))
        out.append(('second-instance-then-back', 'other-anchor',
                    [('load', 'A0', a1), new(kind, 'A0'), ('load', 'A0', a2), new(k2, 'A0'), ('load', 'A0', a1),
                     ('val', 1, N2), ('val', 1, N1), ('val', 0, N1), ('val', 0, N2), ('scribble', 'A0', 'zero'),
                     ('val', 1, N2), ('val', 0, N1), ('val', 0, L), ('val', 1, L)]))
        out.append(('two-buffers', 'other-anchor',
                    [('load', 'A0', a1), ('load', 'A1', a2), new(kind, 'A0'), new(k2, 'A1'), ('load', 'A0', a2),
                     ('load', 'A1', a1), ('val', 0, N1), ('val', 1, N1), ('val', 0, N2), ('val', 1, N2), ('val', 0, L)]))
    kind = rng.choice(BUF_KINDS)
    out.append(('packet-buffer-reused', 'reload',
                [('load', 'A0', a1), new(kind, 'A0'), ('load', 'P0', L), ('val', 0, ('buf', 'P0')), ('load', 'P0', N2),
                 ('val', 0, ('buf', 'P0')), ('load', 'P0', N1), ('val', 0, ('buf', 'P0')), ('scribble', 'P0', 'invert'),
                 ('load', 'P0', L), ('val', 0, ('buf', 'P0')), ('load', 'P0', C), ('val', 0, ('buf', 'P0')),
                 ('scribble', 'P0', 'zero'), ('val', 0, L), ('val', 0, N2)]))
    return out


def random_buffer_history(rng, a1, a2, pk, n_steps):
    """a random walk of the application over its memory: load / overwrite an anchor or packet buffer, build a
    validator from an anchor buffer, validate the packet in a packet buffer -- only loaded buffers are handed over"""
    own = rng.random() < 0.3
    ops = [('storage',)] * 3 if own else []
    holds, ninst = {}, 0
    pks = list(pk.values())

    def new(buf):
        nonlocal ninst
        kind = rng.choice(BUF_KINDS)
        sarg = ninst if own else None
        ninst += 1
        return ('lvs', kind[1], ('buf', buf), sarg) if kind[0] == 'lvs' else ('cascade', ('buf', buf), sarg)
    ops += [('load', 'A0', a1)]
    holds['A0'] = a1
    ops.append(new('A0'))
    for _ in range(n_steps):
        x = rng.random()
        ab, pb = rng.choice(['A0', 'A0', 'A1']), rng.choice(['P0', 'P1'])
        if x < 0.18:
            holds[ab] = rng.choice([a1, a2, a2])
            ops.append(('load', ab, holds[ab]))
        elif x < 0.30:
            holds[ab] = None
            ops.append(('scribble', ab, rng.choice(['zero', 'invert', 'shift'])))
        elif x < 0.42 and ninst < 3 and holds.get(ab) is not None:
            ops.append(new(ab))
        elif x < 0.60:
            holds[pb] = rng.choice(pks)
            ops.append(('load', pb, holds[pb]))
        elif x < 0.66:
            holds[pb] = None
            ops.append(('scribble', pb, rng.choice(['zero', 'invert'])))
        elif x < 0.85 and holds.get(pb) is not None:
            ops.append(('val', rng.randrange(ninst), ('buf', pb)))
        else:
            ops.append(('val', rng.randrange(ninst), rng.choice(pks)))
    for i in range(ninst):          # and at the end everybody is asked about everything, all buffers wiped
        if i == 0:
            ops += [('scribble', b, 'zero') for b in ('A0', 'A1', 'P0', 'P1') if b in holds]
        ops += [('val', i, p) for p in pks[:3]]
    return ops


def gen_buffers(ctx, env):
    """every wire handed to the library (trust anchor, packet, delivered certificate) as bytes / bytearray /
    memoryview (of bytes, of a bytearray, a window of a larger store), and the caller REWRITES its buffers later:
    after the construction, between two validations, to build a second validator from the same buffer, to validate
    the next packet.  The model and the oracle are given the history of the wires that were in the buffers when they
    were handed over (value_ops): by the property nothing else may matter."""
    rng = ctx.rng
    for wi in range(ctx.n(4, 40)):
        w, a1, a2, pk, depth, kts = buffer_world(env, rng)
        same_len = len(w.pkts[a1]) == len(w.pkts[a2])
        hs = [(shape, how, ops) for shape, how, ops in buffer_histories(rng, a1, a2, pk, ctx.thorough)]
        hs += [('random-walk', 'mixed', random_buffer_history(rng, a1, a2, pk, rng.randrange(8, 16)))
               for _ in range(ctx.n(7, 30))]
        for hi, (shape, how, ops) in enumerate(hs):
            forms = {'anchor': FORMS[(wi + hi) % len(FORMS)] if (wi + hi) % 4 == 3 else
                     FORMS_MUTABLE[(wi + hi) % len(FORMS_MUTABLE)],
                     'packet': rng.choice(FORMS), 'cert': rng.choice(FORMS)}
            tag = f'buffers:{shape}:{how}:d{depth}:{forms["anchor"]}/{forms["packet"]}/{forms["cert"]}:' + \
                  ''.join(k[0] for k in kts[:depth + 1])
            impl = check_history(ctx, env, w, ops, tag, forms=forms)
            ctx.case((tag, wi, hi), nontrivial=True,
                     stratum=f'buffers:{shape}:{how}:anchor-in-{forms["anchor"]}',
                     sample={'tag': tag, 'obs': [o[:3] for o in impl]})
            ctx.stat('buffers:anchors-of-one-length:' + str(same_len))


def run(ctx):
    env = Env(ctx)
    gen_buffers(ctx, env)
    gen_concurrent(ctx, env)
    gen_same_key(ctx, env)
    gen_fullnames(ctx, env)
    gen_anchors(ctx, env)
    gen_roots(ctx, env)
    gen_loops(ctx, env)
    gen_single(ctx, env)
    gen_histories(ctx, env)


def replay(ctx, data):
    """re-run ONE recorded history (from an oracle replay file, or from the first broken correspondence)"""
    from harness.lib.core import unjson
    case = data.get('case')
    if case is None:
        for b in data.get('broken', []):
            if 'case' in b:
                case = b['case']
                break
    if case is None:
        ctx.notes.append('replay: no recorded case in the file; full run')
        return run(ctx)
    case = unjson(case)
    env = Env(ctx)
    w = World(env)
    w.pkts = [bytes(x) for x in case['pkts']]
    w.store = {bytes.fromhex(k): tuple(v) for k, v in case['store'].items()}
    if case.get('kind') == 'concurrent':
        sc = ConcScenario(ctx, env, w, [tuple(c) for c in case['ctors']], case['threads'], case['tag'])
        events = [tuple(e) for e in case['events']]
        impl = run_conc_impl(env, w, sc.ctors, sc.threads, script=events, anchor_mem=case.get('anchor_mem'))
        sc.check(impl, len(events) < MAX_EVENTS)
        ctx.case(('replay', case['tag']), nontrivial=True, sample={'tag': case['tag']})
        print('replayed', case['tag'], [e[0] for e in events], [(i, pid, st[:2]) for i, pid, st, _ in impl['threads']])
        return
    ops = [tuple(tuple(x) if isinstance(x, list) else x for x in o) for o in case['ops']]
    impl = check_history(ctx, env, w, ops, case['tag'], forms=case.get('forms'))
    ctx.case(('replay', case['tag']), nontrivial=True, sample={'tag': case['tag'], 'obs': [o[:3] for o in impl]})
    print('replayed', case['tag'], [o[:3] for o in impl])
