import argparse
import os
import sys
import time


def main():
    ap = argparse.ArgumentParser()
    ap.add_argument('prop', nargs='?')
    ap.add_argument('--setup', action='store_true')
    ap.add_argument('--tier', default=os.environ.get('VERIF_TIER', 'quick'))
    ap.add_argument('--seed', type=int, default=int(os.environ.get('VERIF_SEED', '20260925')))
    ap.add_argument('--replay')
    ap.add_argument('--audit', action='store_true')
    a = ap.parse_args()
    from harness.lib import build as B
    if a.setup:
        t0 = time.time()
        res, _ = B.ensure(everything=True)
        print(res.log[-3000:] if not res.ok else '')
        bad = B.audit_sources()
        for b in bad:
            print('AUDIT:', b)
        print(f'setup: {res.describe()} audit={"clean" if not bad else "DIRTY"} wall={time.time()-t0:.0f}s')
        sys.exit(0 if res.ok and not bad else 1)
    if a.audit:
        bad = B.audit_sources()
        print('\n'.join(bad) or 'audit clean')
        sys.exit(1 if bad else 0)
    if not a.prop:
        ap.error('property id required')
    from harness.lib.core import run_property
    tier = 'thorough' if a.tier.startswith('t') else 'quick'
    sys.exit(run_property(a.prop.upper(), tier, a.seed, a.replay))


if __name__ == '__main__':
    main()
