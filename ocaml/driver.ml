(* Text <-> s-expression bridge around the extracted [Model.run : sexp -> sexp].
   One request per input line, one answer per output line.  No logic lives here:
   numbers are decimal, byte strings are 'x' followed by hex digits, lists are parenthesised. *)
module ZZ = Z   (* zarith; the extracted code defines its own module Z *)
open Model

let rec pos_of_z (z : ZZ.t) : positive =
  if ZZ.equal z ZZ.one then XH
  else
    let h = pos_of_z (ZZ.shift_right z 1) in
    if ZZ.testbit z 0 then XI h else XO h

let n_of_z z = if ZZ.sign z = 0 then N0 else Npos (pos_of_z z)

let rec z_of_pos = function
  | XH -> ZZ.one
  | XO p -> ZZ.shift_left (z_of_pos p) 1
  | XI p -> ZZ.succ (ZZ.shift_left (z_of_pos p) 1)

let z_of_n = function N0 -> ZZ.zero | Npos p -> z_of_pos p
let byte_tbl = Array.init 256 (fun i -> n_of_z (ZZ.of_int i))

let int_of_n_small n = ZZ.to_int (z_of_n n)

exception Parse_error of string

let hexval c =
  match c with
  | '0' .. '9' -> Char.code c - 48
  | 'a' .. 'f' -> Char.code c - 87
  | 'A' .. 'F' -> Char.code c - 55
  | _ -> raise (Parse_error "hex")

let parse (s : string) : sexp =
  let n = String.length s in
  let pos = ref 0 in
  let rec skip () =
    if !pos < n && (s.[!pos] = ' ' || s.[!pos] = '\t' || s.[!pos] = '\r') then (incr pos; skip ())
  in
  let rec item () : sexp =
    skip ();
    if !pos >= n then raise (Parse_error "eof");
    match s.[!pos] with
    | '(' ->
        incr pos;
        let acc = ref [] in
        let rec loop () =
          skip ();
          if !pos >= n then raise (Parse_error "eof in list");
          if s.[!pos] = ')' then incr pos
          else (acc := item () :: !acc; loop ())
        in
        loop ();
        SList (List.rev !acc)
    | 'x' ->
        incr pos;
        let start = !pos in
        while !pos < n && (match s.[!pos] with '0' .. '9' | 'a' .. 'f' | 'A' .. 'F' -> true | _ -> false) do
          incr pos
        done;
        let len = !pos - start in
        if len land 1 = 1 then raise (Parse_error "odd hex");
        let acc = ref [] in
        let i = ref (!pos - 2) in
        while !i >= start do
          acc := byte_tbl.((hexval s.[!i] * 16) + hexval s.[!i + 1]) :: !acc;
          i := !i - 2
        done;
        SBytes !acc
    | '0' .. '9' ->
        let start = !pos in
        while !pos < n && (match s.[!pos] with '0' .. '9' -> true | _ -> false) do incr pos done;
        SNum (n_of_z (ZZ.of_string (String.sub s start (!pos - start))))
    | c -> raise (Parse_error (Printf.sprintf "char %c" c))
  in
  let r = item () in
  skip ();
  if !pos <> n then raise (Parse_error "trailing");
  r

let hexdigits = "0123456789abcdef"

let rec print (b : Buffer.t) (s : sexp) : unit =
  match s with
  | SNum n -> Buffer.add_string b (ZZ.to_string (z_of_n n))
  | SBytes l ->
      Buffer.add_char b 'x';
      List.iter
        (fun x ->
          let v = int_of_n_small x in
          if v < 0 || v > 255 then Buffer.add_string b "??"
          else (Buffer.add_char b hexdigits.[v lsr 4]; Buffer.add_char b hexdigits.[v land 15]))
        l
  | SList l ->
      Buffer.add_char b '(';
      let first = ref true in
      List.iter
        (fun x ->
          if not !first then Buffer.add_char b ' ';
          first := false;
          print b x)
        l;
      Buffer.add_char b ')'

let () =
  let buf = Buffer.create 65536 in
  try
    while true do
      let line = input_line stdin in
      Buffer.clear buf;
      (try print buf (run (parse line)) with
       | Parse_error m -> Buffer.add_string buf ("!parse " ^ m)
       | Stack_overflow -> Buffer.add_string buf "!stack_overflow"
       | Not_found -> Buffer.add_string buf "!not_found");
      Buffer.add_char buf '\n';
      print_string (Buffer.contents buf);
      flush stdout
    done
  with End_of_file -> ()
